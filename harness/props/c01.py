"""C01 — CoAP datagram codec: lossless round trip, RFC 7252 section 3 format, total parsing.

Streams (model = Model/C01.v evaluated by vm_compute; impl = the real aiocoap objects):
  encode        structured Message -> Message.encode() -> Message.decode()           (+ Coq rfc_encode vs the oracle's encoder)
  decode        byte string -> Message.decode() -> encode() of the parsed message -> decode() again
  decode_mut    the same on single-byte mutants of valid seed datagrams (sample through the model)
  decode_oracle the same, implementation + oracle only (every mutant of every seed; random byte strings)
  ext_field     _read_extended_field_value / _write_extended_field_value vs Gen/options_ext.v
  value         OptionNumber(n).create_option(decode=raw), option.encode() vs create_option_decode / option_encode
  utf8          bytes.decode("utf-8") / str.encode("utf-8") vs Model/C01Utf8.v
  transport     GenericMessageInterface._received_datagram (generic_udp.py:31-38) and MessageInterfaceUDP6.datagram_msg_received
                (udp6.py:603-640, on a stand-in for self) vs received_datagram with the except clause generated from each site:
                dispatched / logged-and-dropped / escaped; transport_oracle = the same on every 7th mutant, oracle only
  encode_oracle structured messages through Message.encode/decode + oracle only: uint/content-format/block values of exactly
                12/13/268/269/65803/65804 bytes, option objects of another class, inexpressible deltas / lengths
The oracle is an independent reading of RFC 7252 section 3 / RFC 3629 written in this file (rfc_* functions below).
"""
import struct, sys
import fw
sys.set_int_max_str_digits(0)     # safety net only: integers above 2^200 are compared through zv() below
from fw import gz, gbool, glist

BIG = 64          # byte strings longer than this are compared as (length, hash) on both sides
EXT_MAX = 65804   # 65535 + 269: the largest option delta / length RFC 7252 can express

# ============================================================================ input helpers
def bx(spec):
    """bytes-spec -> list of ints: a plain list, or {"fill": pattern, "len": n}"""
    if isinstance(spec, dict):
        pat, n = spec["fill"], spec["len"]
        return (pat * (n // max(1, len(pat)) + 1))[:n]
    return list(spec)
def gbx(spec):
    if isinstance(spec, dict): return "(fill %s %s)" % (fw.gbytes(spec["fill"]), gz(spec["len"]))
    return fw.gbytes(spec)
def digest(b):
    h = 0
    for x in b: h = (h * 257 + x + 1) & 1073741823
    return [len(b), h]
def bv(b):
    b = list(b)
    return b if len(b) <= BIG else {"D": digest(b)}
def ix(spec):
    """integer-spec -> int: a plain int, or {"p256": L, "sub": s} = 256**L - s (huge values without huge numerals in the input)"""
    if isinstance(spec, dict): return 256 ** spec["p256"] - spec["sub"]
    return spec
def zv(n):
    """integers above 2^200 are shown as [0, floor(log2 n), n mod 1000000007] on both sides"""
    return [n] if n < 2 ** 200 else [0, n.bit_length() - 1, n % 1000000007]

KINDS = {"O": 0, "S": 1, "U": 2, "B": 3, "C": 4}
CLASSNAMES = {"OpaqueOption": "O", "StringOption": "S", "UintOption": "U", "BlockOption": "B", "ContentFormatOption": "C"}

def g_optval(kind, val):
    if kind == "O": return "(VOpaque %s)" % gbx(val)
    if kind == "S": return "(VString %s)" % gbx(val)
    if kind == "U": return "(VUint %s)" % gz(val)
    if kind == "C": return "(VContentFormat %s)" % gz(val)
    if kind == "B": return "(VBlock %s %s %s)" % (gz(val[0]), gbool(bool(val[1])), gz(val[2]))
    raise ValueError(kind)
def g_msg(m):
    opts = glist(["(%s, %s)" % (gz(n), g_optval(k, v)) for n, k, v in m["opts"]])
    return "{| m_type := %s; m_code := %s; m_mid := %s; m_token := %s; m_opt := %s; m_payload := %s |}" % (
        gz(m["mtype"]), gz(m["code"]), gz(m["mid"]), gbx(m["token"]), opts, gbx(m["payload"]))

# ============================================================================ independent reading of the RFCs (oracle side)
# RFC 7252 5.10 / 7959 / 7641 / 7967 / 8613 / 9175 / 8768 (+ the library's two experimental numbers): number -> value format
RFC_FORMATS = {1: "O", 3: "S", 4: "O", 5: "O", 6: "U", 7: "U", 8: "S", 9: "O", 11: "S", 12: "C", 14: "U", 15: "S", 16: "U", 17: "C",
               20: "S", 21: "O", 23: "B", 27: "B", 28: "U", 35: "S", 39: "S", 60: "U", 252: "O", 258: "U", 292: "O", 548: "O", 13: "U"}
def rfc_format(n): return RFC_FORMATS.get(n, "O")

class NotRepresentable(Exception): pass

def rfc_utf8_encode(cps):
    """RFC 3629 section 3; raises NotRepresentable for anything that is not a Unicode scalar value"""
    out = bytearray()
    for c in cps:
        if c < 0 or c > 0x10FFFF or 0xD800 <= c <= 0xDFFF: raise NotRepresentable("code point %x" % c)
        if c <= 0x7F: out.append(c)
        elif c <= 0x7FF: out += bytes([0xC0 | (c >> 6), 0x80 | (c & 0x3F)])
        elif c <= 0xFFFF: out += bytes([0xE0 | (c >> 12), 0x80 | ((c >> 6) & 0x3F), 0x80 | (c & 0x3F)])
        else: out += bytes([0xF0 | (c >> 18), 0x80 | ((c >> 12) & 0x3F), 0x80 | ((c >> 6) & 0x3F), 0x80 | (c & 0x3F)])
    return bytes(out)
def rfc_utf8_decode(b):
    """RFC 3629 section 4 (UTF8-octets grammar) -> list of code points, or None when b is not valid UTF-8"""
    out = []; i = 0; n = len(b)
    def tail(k): return k < n and 0x80 <= b[k] <= 0xBF
    while i < n:
        x = b[i]
        if x <= 0x7F: out.append(x); i += 1
        elif 0xC2 <= x <= 0xDF:
            if not tail(i + 1): return None
            out.append(((x & 0x1F) << 6) | (b[i + 1] & 0x3F)); i += 2
        elif 0xE0 <= x <= 0xEF:
            if i + 2 >= n + 0 and not (i + 2 < n): return None
            lo, hi = (0xA0, 0xBF) if x == 0xE0 else ((0x80, 0x9F) if x == 0xED else (0x80, 0xBF))
            if not (i + 2 < n and lo <= b[i + 1] <= hi and tail(i + 2)): return None
            out.append(((x & 0x0F) << 12) | ((b[i + 1] & 0x3F) << 6) | (b[i + 2] & 0x3F)); i += 3
        elif 0xF0 <= x <= 0xF4:
            lo, hi = (0x90, 0xBF) if x == 0xF0 else ((0x80, 0x8F) if x == 0xF4 else (0x80, 0xBF))
            if not (i + 3 < n and lo <= b[i + 1] <= hi and tail(i + 2) and tail(i + 3)): return None
            out.append(((x & 0x07) << 18) | ((b[i + 1] & 0x3F) << 12) | ((b[i + 2] & 0x3F) << 6) | (b[i + 3] & 0x3F)); i += 4
        else: return None
    return out

def rfc_uint(n):
    if n < 0: raise NotRepresentable("negative uint")
    if n >= 1 << 2048:                      # big values: through the hexadecimal numeral (the digit loop is quadratic)
        h = "%x" % n
        return bytes.fromhex(h if len(h) % 2 == 0 else "0" + h)
    out = []
    while n: out.append(n % 256); n //= 256
    return bytes(reversed(out))
def rfc_value(kind, val):
    if kind == "O": return bytes(bx(val))
    if kind == "S": return rfc_utf8_encode(bx(val))
    if kind in ("U", "C"): return rfc_uint(ix(val))
    if kind == "B":
        num, more, szx = val; num = ix(num)
        if num < 0 or not (0 <= szx <= 7): raise NotRepresentable("block")
        return rfc_uint(num * 16 + (8 if more else 0) + szx)
    raise NotRepresentable(kind)
def rfc_ext(v):
    if v < 0 or v > EXT_MAX: raise NotRepresentable("delta/length %d" % v)
    if v <= 12: return v, b""
    if v <= 268: return 13, bytes([v - 13])
    return 14, bytes(divmod(v - 269, 256))
class Inexpressible(NotRepresentable): pass      # header and values are legal, but a delta / value length is outside 0..65804
def rfc_encode(m, any_class=False):
    """section 3 encoder of a structured message (options in insertion order; the wire order is by number, stable).
    Raises NotRepresentable when the message is outside what section 3 can carry / the value formats allow (Inexpressible when the
    only obstacle is a delta or value length outside 0..65804).  any_class: accept a value of a class other than the one the
    RFC tables give to the option number (the bytes are still defined; the round trip is not)."""
    if not (0 <= m["mtype"] <= 3 and 0 <= m["code"] <= 255 and 0 <= m["mid"] <= 0xFFFF): raise NotRepresentable("header")
    token = bytes(bx(m["token"]))
    if len(token) > 8: raise NotRepresentable("token")
    out = bytearray([0x40 | (m["mtype"] << 4) | len(token), m["code"], m["mid"] >> 8, m["mid"] & 0xFF]) + token
    prev = 0; late = None
    values = []
    for n, kind, val in sorted(m["opts"], key=lambda o: o[0]):
        if kind != rfc_format(n) and not any_class: raise NotRepresentable("option %d holds a %s value" % (n, kind))
        values.append((n, rfc_value(kind, val)))                       # every value must be legal before lengths are judged
    for n, v in values:
        if not (0 <= n - prev <= EXT_MAX and len(v) <= EXT_MAX): raise Inexpressible("delta %d / length %d" % (n - prev, len(v)))
        dn, de = rfc_ext(n - prev); ln, le = rfc_ext(len(v))
        out += bytes([dn * 16 + ln]) + de + le + v
        prev = n
    payload = bytes(bx(m["payload"]))
    if payload: out += b"\xff" + payload
    return bytes(out)
def rfc_interp(n, raw):
    """typed reading of an option value -> (kind, ints, byte-ish) in the canonical option view, or None (string not UTF-8)"""
    f = rfc_format(n)
    if f == "O": return [n, 0, [], bv(raw)]
    if f == "S":
        s = rfc_utf8_decode(raw)
        return None if s is None else [n, 1, [], bv(s)]
    if len(raw) > 256: v = int(bytes(raw).hex(), 16)
    else:
        v = 0
        for x in raw: v = v * 256 + x
    if f == "U": return [n, 2, zv(v), []]
    if f == "C": return [n, 4, zv(v), []]
    return [n, 3, zv(v // 16) + [(v // 8) % 2, v % 8], []]
def rfc_parse_raw(data):
    """section 3 parser with uninterpreted option values: [type, code, mid, token, [[number, value bytes]], payload], or None when the
    datagram is not well-formed under section 3"""
    if len(data) < 4: return None
    b0 = data[0]
    if b0 // 64 != 1: return None
    t = (b0 // 16) % 4; tkl = b0 % 16
    if tkl > 8 or len(data) < 4 + tkl: return None
    code = data[1]; mid = data[2] * 256 + data[3]
    token = data[4:4 + tkl]; i = 4 + tkl; number = 0; opts = []; payload = b""
    while i < len(data):
        if data[i] == 0xFF:
            payload = data[i + 1:]
            if not payload: return None
            break
        dn, ln = data[i] // 16, data[i] % 16; i += 1
        vals = []
        for nib in (dn, ln):
            if nib == 15: return None
            if nib == 13:
                if i + 1 > len(data): return None
                nib = data[i] + 13; i += 1
            elif nib == 14:
                if i + 2 > len(data): return None
                nib = data[i] * 256 + data[i + 1] + 269; i += 2
            vals.append(nib)
        number += vals[0]
        if i + vals[1] > len(data): return None
        opts.append([number, bytes(data[i:i + vals[1]])]); i += vals[1]
    return [t, code, mid, bytes(token), opts, bytes(payload)]
def raw_view(r):
    return None if r is None else [r[0], r[1], r[2], bv(r[3]), [[n, bv(v)] for n, v in r[4]], bv(r[5])]
def rfc_parse(data):
    """section 3 parser: canonical message view with typed options, "not-utf8" when the datagram is well-formed but a string
    option is not UTF-8, None when the datagram is not well-formed under section 3"""
    r = rfc_parse_raw(data)
    if r is None: return None
    opts = [rfc_interp(n, v) for n, v in r[4]]
    if any(o is None for o in opts): return "not-utf8"
    return [r[0], r[1], r[2], bv(r[3]), opts, bv(r[5])]

def ext_max_in_datagram(data):
    """lenient walk over the options of a datagram: does some option delta equal 65804, or would some option value,
    re-encoded canonically, be 65804 bytes long?  (classifies a regression of the off-by-one fixed in 96b3185; never used to accept anything)"""
    if len(data) < 4: return False
    i = 4 + data[0] % 16; number = 0
    while i < len(data):
        if data[i] == 0xFF: return False
        dn, ln = data[i] // 16, data[i] % 16; i += 1
        vals = []
        for nib in (dn, ln):
            if nib == 15: return False
            if nib == 13:
                if i + 1 > len(data): return False
                nib = data[i] + 13; i += 1
            elif nib == 14:
                if i + 2 > len(data): return False
                nib = data[i] * 256 + data[i + 1] + 269; i += 2
            vals.append(nib)
        number += vals[0]
        if i + vals[1] > len(data): return False
        raw = data[i:i + vals[1]]; i += vals[1]
        if vals[0] == EXT_MAX: return True
        if vals[1] == EXT_MAX and (rfc_format(number) in ("O", "S") or raw[0] != 0): return True
    return False

def legal_message(m):
    """the message is in the domain of the property's first sentence (section 3 can carry it, values legal for their formats)"""
    try: rfc_encode(m); return True
    except NotRepresentable: return False
def expected_view(m):
    opts = []
    for n, kind, val in sorted(m["opts"], key=lambda o: o[0]):
        if kind == "O": opts.append([n, 0, [], bv(bx(val))])
        elif kind == "S": opts.append([n, 1, [], bv(bx(val))])
        elif kind == "U": opts.append([n, 2, zv(ix(val)), []])
        elif kind == "C": opts.append([n, 4, zv(ix(val)), []])
        else: opts.append([n, 3, zv(ix(val[0])) + [1 if val[1] else 0, val[2]], []])
    return [m["mtype"], m["code"], m["mid"], bv(bx(m["token"])), opts, bv(bx(m["payload"]))]
def has_ext_max(view_or_msg_opts):
    """some option delta or value length is exactly 65804 (needs the raw lengths: computed on structured options)"""
    prev = 0
    for n, kind, val in sorted(view_or_msg_opts, key=lambda o: o[0]):
        try: l = len(rfc_value(kind, val))
        except NotRepresentable: l = -1
        if n - prev == EXT_MAX or l == EXT_MAX: return True
        prev = n
    return False

# ============================================================================ implementation side
def opt_view(o):
    k = CLASSNAMES.get(type(o).__name__, "?" + type(o).__name__)
    n = int(o.number)
    if k == "O": return [n, 0, [], bv(o.value)]
    if k == "S": return [n, 1, [], bv([ord(c) for c in o.value])]
    if k == "U": return [n, 2, zv(int(o.value)), []]
    if k == "C": return [n, 4, zv(int(o.value)), []]
    if k == "B": return [n, 3, zv(int(o.value.block_number)) + [int(bool(o.value.more)), int(o.value.size_exponent)], []]
    return [n, k]
def msg_view(m):
    return [int(m.mtype), int(m.code), int(m.mid), bv(m.token), [opt_view(o) for o in m.opt.option_list()], bv(m.payload)]
def exn(e): return "exn:" + type(e).__name__

def make_option(n, kind, val):
    from aiocoap.numbers.optionnumbers import OptionNumber
    from aiocoap import optiontypes as ot
    cls = {"O": ot.OpaqueOption, "S": ot.StringOption, "U": ot.UintOption, "B": ot.BlockOption, "C": ot.ContentFormatOption}[kind]
    number = OptionNumber(n)
    if kind == "O": v = bytes(bx(val))
    elif kind == "S": v = "".join(chr(c) for c in bx(val))
    elif kind == "B": v = (ix(val[0]), bool(val[1]), val[2])
    else: v = ix(val)
    if number.format is cls:
        return number.create_option(value=v)      # the path applications use: OptionNumber.create_option(value=...)
    o = cls(number)                               # an option object of another class under this number
    o.value = v
    return o

def build_message(m):
    import aiocoap
    msg = aiocoap.Message(code=m["code"], payload=bytes(bx(m["payload"])), _mid=m["mid"], _mtype=m["mtype"], _token=bytes(bx(m["token"])))
    for n, kind, val in m["opts"]:
        msg.opt.add_option(make_option(n, kind, val))
    return msg



# ============================================================================ generators
LEN_BOUNDARY = [0, 1, 2, 7, 8, 11, 12, 13, 14, 15, 16, 255, 256, 267, 268, 269, 270, 300]
DELTA_BOUNDARY = [0, 1, 11, 12, 13, 14, 15, 267, 268, 269, 270, 65802, 65803, 65804, 65535, 65536]
KNOWN_NUMBERS = sorted(RFC_FORMATS)
CP_BOUNDARY = [0, 0x41, 0x7F, 0x80, 0xFF, 0x7FF, 0x800, 0xFFF, 0x1000, 0xD7FF, 0xE000, 0xFFFD, 0xFFFF, 0x10000, 0x3FFFF, 0x40000, 0xFFFFF, 0x100000, 0x10FFFF]
UINT_BOUNDARY = [0, 1, 2, 127, 128, 255, 256, 257, 65535, 65536, 2 ** 24 - 1, 2 ** 24, 2 ** 32 - 1, 2 ** 32, 2 ** 64 - 1, 2 ** 64,
                 2 ** 96 - 1, 2 ** 96, 2 ** 104 - 1, 2 ** 104]

def g_len(rng, big_ok=False):
    r = rng.random()
    if r < 0.45: return rng.randint(0, 10)
    if r < 0.85: return rng.choice(LEN_BOUNDARY)
    if big_ok and r < 0.87: return rng.choice([65803, 65804])
    return rng.randint(0, 40)
def g_bytes(rng, n):
    if n > 600: return {"fill": [rng.randint(0, 255) for _ in range(rng.randint(1, 5))], "len": n}
    r = rng.random()
    if r < 0.1: return [0] * n
    if r < 0.2: return [255] * n
    return [rng.randint(0, 255) for _ in range(n)]
def g_cp(rng):
    r = rng.random()
    if r < 0.5: return rng.randint(0x20, 0x7E)
    if r < 0.65: return rng.choice(CP_BOUNDARY)
    if r < 0.75: return rng.randint(0x80, 0x7FF)
    if r < 0.9:
        c = rng.randint(0x800, 0xFFFF)
        return c if not (0xD800 <= c <= 0xDFFF) else 0xE000 + (c - 0xD800)
    return rng.randint(0x10000, 0x10FFFF)
def g_string(rng, big_ok=False):
    """code points whose UTF-8 length sits on a boundary about half of the time"""
    n = g_len(rng, big_ok)
    if n > 600: return {"fill": [rng.randint(0x20, 0x7E) for _ in range(rng.randint(1, 4))], "len": n}
    if rng.random() < 0.5: return [rng.randint(0x20, 0x7E) for _ in range(n)]      # ASCII: length == n exactly
    out = []; used = 0
    while used < n:
        c = g_cp(rng); l = len(rfc_utf8_encode([c]))
        if used + l > n: c = 0x61; l = 1
        out.append(c); used += l
    return out
def g_uint(rng):
    r = rng.random()
    if r < 0.4: return rng.choice(UINT_BOUNDARY)
    if r < 0.8: return rng.getrandbits(rng.choice([1, 4, 8, 9, 15, 16, 17, 24, 31, 32, 33, 40, 63, 64, 65]))
    if r < 0.9: return 256 ** rng.choice([11, 12, 13, 14]) - rng.choice([0, 1])
    return rng.getrandbits(8 * rng.choice([12, 13, 14, 20]))
def g_value(rng, kind, big_ok=False):
    if kind == "O": return g_bytes(rng, g_len(rng, big_ok))
    if kind == "S": return g_string(rng, big_ok)
    if kind in ("U", "C"):
        if kind == "C" and rng.random() < 0.5: return rng.choice([0, 40, 41, 42, 47, 50, 60, 110, 65535, 65536, 11060])
        return g_uint(rng)
    num = rng.choice([0, 1, 2, 15, 16, 255, 4095, 4096, 2 ** 20 - 1, 2 ** 20, rng.getrandbits(20), rng.getrandbits(36)])
    return [num, rng.random() < 0.5, rng.randint(0, 7)]
def g_number(rng, prev):
    r = rng.random()
    if r < 0.45:
        cand = [k for k in KNOWN_NUMBERS if k >= prev]
        return rng.choice(cand) if cand else prev + rng.randint(0, 20)
    if r < 0.55: return prev                                   # repeated option
    if r < 0.8: return prev + rng.choice(DELTA_BOUNDARY)
    if r < 0.9: return prev + rng.randint(0, 30)
    return prev + rng.randint(0, 70000) % 65805
def g_options(rng, big_ok=False):
    r = rng.random()
    k = 0 if r < 0.08 else 1 if r < 0.25 else rng.randint(2, 5) if r < 0.8 else rng.randint(6, 16)
    opts = []; prev = 0; big_used = False
    for _ in range(k):
        n = g_number(rng, prev); prev = n
        kind = rfc_format(n)
        v = g_value(rng, kind, big_ok and not big_used)
        if isinstance(v, dict): big_used = True
        opts.append([n, kind, v])
    if big_ok and not big_used:
        cand = [o for o in opts if o[1] in "OS"]
        if not cand:
            # (an opaque number: a 65 kB *uint* would cost minutes of list-of-bits arithmetic in vm_compute)
            d = rng.choice([d for d in (0, 1, 13, 2000) if rfc_format(prev + d) == "O"])
            opts.append([prev + d, "O", []]); cand = [opts[-1]]
        o = rng.choice(cand)
        o[2] = {"fill": [rng.randint(0x20, 0x7E) for _ in range(rng.randint(1, 4))], "len": rng.choice([65802, 65803, 65804])}
    r = rng.random()
    if r < 0.25: rng.shuffle(opts)
    elif r < 0.35: opts.reverse()
    elif r < 0.45 and len(opts) > 1:                              # known numbers inserted out of order
        i = rng.randrange(len(opts)); opts.append(opts.pop(i))
    return opts
def g_message(rng, big_ok=False):
    code = rng.choice([0, 1, 2, 3, 4, 5, 6, 7, 31, 32, 64, 65, 68, 69, 95, 128, 132, 160, 165, 224, 255]) if rng.random() < 0.5 else rng.randint(0, 255)
    mid = rng.choice([0, 1, 255, 256, 0x7FFF, 0x8000, 0xFFFE, 0xFFFF]) if rng.random() < 0.4 else rng.randint(0, 0xFFFF)
    plen = rng.choice([0, 0, 1, 2, 15, 16, 64, 65, 1024, 1152]) if rng.random() < 0.7 else rng.randint(0, 80)
    payload = g_bytes(rng, plen)
    if plen and isinstance(payload, list) and rng.random() < 0.2: payload[0] = 0xFF
    return {"mtype": rng.randint(0, 3), "code": code, "mid": mid, "token": g_bytes(rng, rng.randint(0, 8)),
            "opts": g_options(rng, big_ok), "payload": payload}
TYPED_LEN_BOUNDARY = [12, 13, 14, 267, 268, 269, 270, 65803, 65804]
def g_big_typed_message(rng):
    """uint / content-format / block values whose encodings are exactly L bytes, L on the extended-field boundaries
    (oracle-only stream: a 65 kB integer costs minutes in vm_compute and milliseconds in CPython)"""
    m = g_message(rng); m["opts"] = [o for o in m["opts"] if not isinstance(o[2], dict)][:rng.randint(0, 3)]
    r = rng.random()      # 65 kB integers cost ~50 ms each in CPython: about one case in seven
    L = rng.choice(TYPED_LEN_BOUNDARY[:7]) if r < 0.85 else rng.choice(TYPED_LEN_BOUNDARY[7:]) if r < 0.96 else rng.choice([65805, 65806])   # the last two: inexpressible
    kind = rng.choice("UCB")
    n = rng.choice([k for k, f in RFC_FORMATS.items() if f == kind])
    hi = rng.random() < 0.5                      # 256**L - 1 (all FF) or 256**(L-1) (01 00 .. 00): both need exactly L bytes
    spec = {"p256": L, "sub": 1} if hi else {"p256": L - 1, "sub": 0}
    if kind == "B":
        # as_integer = num*16 + m*8 + szx must need exactly L bytes: num = (256**L - 1) >> 4 or 256**(L-1) >> 4 (L >= 2)
        num = ix(spec) >> 4
        val = [num, rng.random() < 0.5, rng.randint(0, 7)] if L < 300 else [{"p256": L - 1, "sub": 0}, rng.random() < 0.5, rng.randint(0, 7)]
        # (for long values num = 256**(L-1): as_integer = 0x10 00 .. 00, L bytes as well)
    else: val = spec if L >= 300 else ix(spec)
    m["opts"] = [o for o in m["opts"] if o[0] != n] + [[n, kind, val]]
    if rng.random() < 0.3: rng.shuffle(m["opts"])
    return m
def g_illegal_message(rng, big_ok=True):
    """outside the property's domain (correspondence only): what does encode() do with it?"""
    m = g_message(rng)
    which = rng.randrange(9)
    if which == 7 and not big_ok: which = 8
    if which == 0: m["token"] = g_bytes(rng, rng.choice([9, 10, 15, 16, 17, 24, 31, 32]))
    elif which == 1: m["code"] = rng.choice([256, 257, -1, 1000])
    elif which == 2: m["mid"] = rng.choice([65536, -1, 70000, 2 ** 32])
    elif which == 3: m["opts"].append([rng.choice([7, 14, 60, 6]), "U", -rng.randint(1, 300)])
    elif which == 4: m["opts"].append([rng.choice([23, 27]), "B", [rng.choice([-1, 0, 5]), True, rng.choice([8, 9, 15, 16, -1])]])
    elif which == 5: m["opts"].append([rng.choice([11, 3, 15]), "S", [0x61, rng.choice([0xD800, 0xDBFF, 0xDC00, 0xDFFF]), 0x62]])
    elif which == 6:                                                 # value class not matching the number's format
        n = rng.choice(KNOWN_NUMBERS + [2, 10, 22, 1000]); kind = rng.choice([k for k in "OSUBC" if k != rfc_format(n)])
        m["opts"].append([n, kind, g_value(rng, kind)])
    elif which == 7: m["opts"].append([rng.choice([4, 1, 2000]), "O", {"fill": [1, 2, 3], "len": rng.choice([65805, 65806, 70000])}])
    else: m["opts"] = [[5, "O", []], [5 + rng.choice([65805, 65806, 131608]), "O", [1]]]
    return m
def g_ext_max_message(rng, big=None):
    """the two places where 65804 = 65535 + 269 (expressible in RFC 7252) can occur: a delta, a value length"""
    m = g_message(rng); m["opts"] = [o for o in m["opts"] if o[0] < 300 and not isinstance(o[2], dict)][:3]
    top = max([o[0] for o in m["opts"]] + [0])
    if big is None: big = rng.random() < 0.5
    if not big: m["opts"].append([top + EXT_MAX, rfc_format(top + EXT_MAX), [] if rfc_format(top + EXT_MAX) in "OS" else 0])
    else:
        n = rng.choice([4, 1, 2000, 11]); m["opts"] = [o for o in m["opts"] if o[0] <= n]
        m["opts"].append([n, rfc_format(n), {"fill": [0x61, 0x62], "len": EXT_MAX}])
    return m

# fixed seed datagrams for the malformed stream (built with the oracle's encoder, i.e. from the RFC)
def seed_messages():
    S = lambda s: [ord(c) for c in s]
    return [
        {"mtype": 0, "code": 1, "mid": 0x1234, "token": [0xAA, 0xBB], "opts": [[11, "S", S(".well-known")], [11, "S", S("core")]], "payload": []},
        {"mtype": 1, "code": 2, "mid": 1, "token": [], "opts": [[3, "S", S("example.org")], [7, "U", 5683], [11, "S", S("a")], [12, "C", 50], [15, "S", S("k=v")]], "payload": [0x7B, 0x7D]},
        {"mtype": 2, "code": 69, "mid": 0xFFFF, "token": [1, 2, 3, 4, 5, 6, 7, 8], "opts": [[4, "O", [0xDE, 0xAD]], [12, "C", 40], [14, "U", 60], [23, "B", [3, True, 6]], [28, "U", 70000]], "payload": [0xFF, 0x00, 0xFF]},
        {"mtype": 3, "code": 0, "mid": 0, "token": [], "opts": [], "payload": []},
        {"mtype": 0, "code": 3, "mid": 77, "token": [9], "opts": [[11, "S", [0xE9, 0x20AC, 0x1F600]], [27, "B", [0, False, 2]], [60, "U", 1024]], "payload": [1]},
        {"mtype": 0, "code": 1, "mid": 500, "token": [5, 5], "opts": [[6, "U", 0], [11, "S", S("x" * 13)], [35, "S", S("coap://h/" + "p" * 20)], [252, "O", list(range(9))], [258, "U", 26], [292, "O", []], [548, "O", [7] * 14]], "payload": []},
        {"mtype": 1, "code": 68, "mid": 9, "token": [0], "opts": [[1, "O", [1]], [1, "O", []], [4, "O", [2] * 8], [5, "O", []], [8, "S", S("l")], [20, "S", S("q")], [2000, "O", [1, 2, 3]], [2000 + 65803, "O", [4]]], "payload": [0x61]},
        {"mtype": 0, "code": 2, "mid": 0x0D0E, "token": [0xFF], "opts": [[11, "S", S("y" * 269)], [39, "S", S("coap")], [60, "U", 2 ** 32]], "payload": [0xD0, 0xE0]},
        {"mtype": 0, "code": 1, "mid": 3, "token": [], "opts": [[9, "O", [9, 1, 2]], [17, "C", 65535], [16, "U", 16], [13, "U", 300]], "payload": []},
    ]
SUBST_SMALL = lambda b: sorted(set([0x00, 0xFF, (b + 1) % 256, (b - 1) % 256] + [b ^ (1 << k) for k in range(8)]) - {b})
INSERT_BYTES = [0x00, 0xFF, 0x0D, 0xD0, 0xDD, 0x0E, 0xE0, 0xEE, 0xF0, 0x0F, 0x80, 0xC3, 0x41]
def mutants(data, full_subst=False):
    """every single-byte substitution (all 255 when full_subst, else 0x00/0xFF/+-1/every bit flip), every truncation,
    every one-byte insertion from INSERT_BYTES, every one-byte deletion"""
    data = list(data)
    for i, b in enumerate(data):
        for x in (range(256) if full_subst else SUBST_SMALL(b)):
            if x != b: yield data[:i] + [x] + data[i + 1:]
    for i in range(len(data)): yield data[:i]
    for i in range(len(data) + 1):
        for x in INSERT_BYTES: yield data[:i] + [x] + data[i:]
    for i in range(len(data)): yield data[:i] + data[i + 1:]
def random_mutation(rng, data):
    data = list(data)
    for _ in range(rng.choice([1, 1, 1, 2, 3])):
        k = rng.randrange(4)
        if k == 0 and data: data[rng.randrange(len(data))] = rng.choice([0, 0xFF, rng.randint(0, 255), 0x0D, 0xD0, 0xE0, 0x0E, 0xF1, 0x1F])
        elif k == 1 and data: data = data[:rng.randrange(len(data))]
        elif k == 2: i = rng.randint(0, len(data)); data = data[:i] + [rng.choice(INSERT_BYTES + [rng.randint(0, 255)])] + data[i:]
        elif data: i = rng.randrange(len(data)); data = data[:i] + data[i + 1:]
    return data
def handcrafted_datagrams():
    H = lambda s: list(bytes.fromhex(s.replace(" ", "")))
    out = [H(""), H("40"), H("4001"), H("400100"), H("40010001"), H("00010001"), H("80010001"), H("C0010001"),
           H("40010001 FF"), H("40010001 FF 00"), H("40010001 B1 FF"), H("40010001 B2 C3 A9"), H("40010001 B1 C3"),
           H("49010001 01 02 03 04 05 06 07 08 09"), H("4F010001 AA"), H("4F010001" + "11" * 15 + "B161"), H("48010001 0102030405060708"),
           H("48010001 01020304050607"), H("40010001 F0"), H("40010001 0F"), H("40010001 1F"), H("40010001 F1 61"), H("40010001 D0"), H("40010001 E0 00"),
           H("40010001 D0 00"), H("40010001 E0 00 00"), H("40010001 E0 FF FE"), H("40010001 E0 FF FF"), H("40010001 0D 00" + "61" * 13), H("40010001 0D 00" + "61" * 12),
           H("40010001 0E 00 00" + "61" * 269), H("40010001 DD 00 00" + "61" * 13), H("40010001 EE 0000 0000" + "00" * 269),
           H("40010001 72 00 05"), H("40010001 73 00 00 01"), H("40010001 C2 00 28"), H("40010001 D1 0A 00"), H("40010001 D3 0A 00 00 1E"),
           H("40010001 D4 0A 00 00 00 00"), H("40010001 B0 B0 B0"), H("40010001 B1 61 01 62"), H("40010001 B3 ED A0 80"), H("40010001 B3 EF BF BF"),
           H("40010001 B4 F4 90 80 80"), H("40010001 B4 F4 8F BF BF"), H("40010001 B2 C0 80"), H("40010001 B3 E0 80 80"), H("40010001 B4 F0 80 80 80"),
           H("40010001 B1 80"), H("40010001 B4 F5 80 80 80"), H("40FF FFFF"), H("7FFF FFFF FF"), H("40010001 7D 1B" + "FF" * 40), H("40010001 DD 0A 1B 80" + "01" * 39), H("40010001 01 61 FF"), H("40010001 00 00 00 00")]
    return out

FIELDS = ["mtype", "code", "mid", "token", "options", "payload"]
def view_diff(a, b):
    """name of the first field in which two message views differ (None when equal)"""
    for k, name in enumerate(FIELDS):
        if a[k] != b[k]:
            if name != "options": return name
            if len(a[k]) != len(b[k]): return "option-count"
            if sorted(map(fw.jdump, a[k])) == sorted(map(fw.jdump, b[k])): return "option-order"
            for x, y in zip(a[k], b[k]):
                if x != y:
                    if x is None or y is None or x[0] != y[0]: return "option-number"
                    return "option-format" if x[1] != y[1] else "option-value"
    return None
def view_to_message(v):
    """structured message of a canonical view, None when a long field is only known by its digest"""
    t, c, mid, tok, opts, pay = v
    if isinstance(tok, dict) or isinstance(pay, dict): return None
    out = []
    for n, k, ints, b in opts:
        if isinstance(b, dict): return None
        if (k in (2, 4) and len(ints) != 1) or (k == 3 and len(ints) != 3): return None      # integer known only by its digest
        kind = "OSUBC"[k]
        out.append([n, kind, b if kind in "OS" else ints[0] if kind in "UC" else [ints[0], bool(ints[1]), ints[2]]])
    return {"mtype": t, "code": c, "mid": mid, "token": tok, "opts": out, "payload": pay}


class C01(fw.Property):
    id = "C01"
    coq_props = "Props/C01.v"
    gen_jobs = ["options_ext", "optiontypes_min", "optnum_table", "decode_handlers", "c01_shapes"]
    model_imports = ["Verif.Gen.options_ext", "Verif.Gen.optiontypes_min", "Verif.Gen.optnum_table", "Verif.Model.C01Types",
                     "Verif.Model.C01Utf8", "Verif.Model.C01", "Verif.Model.C01Rfc", "Verif.Model.C01Views", "Verif.Gen.decode_handlers"]
    quick_budget = 480
    thorough_budget = 15000
    design_ref = "DESIGN.md section 6"
    technique = ("Coq proofs (round trip, RFC-format equality, totality of parsing) over an executable model of Message/Options/optiontypes; extended-field "
                 "kernels, _to_minimum_bytes and the option format table regenerated from source on every run; differential correspondence of the "
                 "hand-written model with the real aiocoap objects; oracle = independent RFC 7252 section 3 / RFC 3629 encoder and parser")
    rule = ("streams: encode = structured messages (types 0-3, codes 0..255, mids, tokens 0-8, 0-16 options in sorted/shuffled/reversed insertion order, "
            "numbers from the registry, repeated, at delta boundaries 12/13/14/268/269/270/65803/65804 and beyond 65535 by summed deltas, every value format with "
            "lengths at 0/12/13/268/269/65803/65804, payload 0/1/large/starting with 0xFF) + ~10% messages outside the domain (token > 8, code/mid out of range, negative uint, "
            "szx > 7, surrogate, value class not matching the number, > 65804) through Message.encode/decode vs Model/C01; decode = oracle-encoded valid datagrams, "
            "randomly mutated ones, random bytes, hand-written boundary datagrams; decode_mut = every single-byte substitution (0x00/0xFF/+-1/bit flips; all 255 values "
            "in decode_oracle), truncation, one-byte insertion (13 values) and deletion of 9 seed datagrams (sampled through the model in quick, all of them in thorough); "
            "decode_oracle = the same mutants and more random ones through implementation + oracle only; ext_field / value / utf8 = kernels vs translated code and "
            "value codecs; transport = hand-written datagrams and every 7th mutant through GenericMessageInterface._received_datagram (oracle only). Non-trivial = encode: at least one option; decode*: header accepted (>= 4 bytes, version 1); kernels: all. Distinct by full input.")
    trusted_base = ["translator translate/py2v.py + Lib/Py.v prelude and the data-extraction job translate/jobs/c01.py (validated by the ext_field / value streams)",
                    "hand-written Model/C01.v (Options.decode/encode, Message.decode/encode, value codecs) — validated by the encode/decode/decode_mut streams",
                    "Model/C01Utf8.v stands for CPython's UTF-8 codec (validated by the utf8 stream)",
                    "Model/C01Rfc.v and the rfc_* functions of harness/props/c01.py are two independent readings of RFC 7252 section 3 (compared with each other on the encode stream)"]
    assumptions = ["Python bytes objects hold integers 0..255 (hypothesis bytes_ok of the theorems)",
                   "a str is a list of code points; CPython's strict UTF-8 codec = RFC 3629 (checked by correspondence, not proved)",
                   "Message.mtype is a member of Type (0..3): Type() rejects anything else before a Message exists",
                   "'a message that itself round-trips' is read after re-labelling the parsed message's direction to OUTGOING: Message.encode asserts "
                   "direction == OUTGOING (message.py:362), so encode() of a message exactly as parsed raises AssertionError (observed on the decode_oracle stream; not a codec matter)",
                   "the round trip (sentence 2) is about option objects of the class registered for their number; an object of another class (application-defined "
                   "UintOption under an unregistered number) is serialised to the RFC's bytes (C01_encode_is_rfc_any_class) and parsed back as the number's class"]
    level_text = ("Theorems (closed under the global context) over a model of Message.encode/decode, Options.encode/decode and the option value codecs whose "
                  "extended-field kernels, _to_minimum_bytes and format table are regenerated from source on every run: encode = independent RFC 7252 section 3 encoder "
                  "on every well-formed message, decode(encode(m)) = m with options in option_list order, every RFC-well-formed datagram parses to the RFC's fields, "
                  "and for every byte string the parser either raises UnparsableMessage or returns a message that re-encodes to the RFC format and re-parses to itself "
                  "(option deltas / value lengths over the whole range 0..65804 that section 3.1 can express).")
    level_note = ("Trusted: Coq kernel + vm_compute; translator + prelude; the hand-written parts of Model/C01.v (tied by correspondence, sampled); CPython's UTF-8 codec "
                  "is represented by Model/C01Utf8.v (proved a bijection between scalar-value lists and well-formed byte sequences, compared with CPython by sampling); "
                  "the dict inside Options is represented by its insertion sequence; Type()/Code() constructors and the direction assertion are outside the model.")

    # ------------------------------------------------------------------ generators
    def gen_cases(self, tier, rng, n):
        thorough = tier == "thorough"
        n_enc = n * 30 // 100; n_dec = n * 22 // 100; n_mut = n * 27 // 100; n_ext = n * 8 // 100; n_val = n * 9 // 100; n_utf = n - n_enc - n_dec - n_mut - n_ext - n_val
        # ---- encode
        # (values of ~65803 bytes cost seconds in vm_compute: two of them in quick, about 2% of the cases in thorough)
        for k in range(n_enc):
            r = rng.random()
            big_ok = (k % 50 == 7) if thorough else k == 7
            if r < 0.88 or big_ok: yield "encode", g_message(rng, big_ok)
            elif r < 0.98: yield "encode", g_illegal_message(rng, thorough or k == 11)
            else: yield "encode", g_ext_max_message(rng, None if thorough else False)
        yield "encode", g_ext_max_message(rng, True)
        yield "encode", g_ext_max_message(rng, False)
        # ---- encode, implementation + oracle only (no vm_compute): many more messages, typed values on every length boundary,
        #      option objects of another class than their number's, deltas / lengths section 3 cannot express
        for k in range(n * 6 if not thorough else n * 3):
            r = rng.random()
            if r < 0.45: yield "encode_oracle", g_message(rng, rng.random() < 0.02)
            elif r < 0.75: yield "encode_oracle", g_big_typed_message(rng)
            elif r < 0.95: yield "encode_oracle", g_illegal_message(rng, rng.random() < 0.3)
            else: yield "encode_oracle", g_ext_max_message(rng, rng.random() < 0.3)
        # ---- decode: valid (oracle-encoded), mutated, random, handcrafted
        hand = handcrafted_datagrams()
        for d in hand: yield "decode", {"data": d}
        for k in range(max(0, n_dec - len(hand))):
            r = rng.random()
            if r < 0.4: data = list(rfc_encode(g_message(rng)))
            elif r < 0.8: data = random_mutation(rng, rfc_encode(g_message(rng)))
            elif r < 0.9:
                data = [rng.choice([0x40, 0x50, 0x60, 0x70]) | rng.choice([0, 0, 1, 2, 4, 8, 9, 15]), rng.randint(0, 255), rng.randint(0, 255), rng.randint(0, 255)] + \
                       [rng.choice([rng.randint(0, 255), 0xFF, 0xD0, 0x0D, 0xE0, 0x0E, 0x00, 0x11, 0xB1]) for _ in range(rng.randint(0, 24))]
            else: data = [rng.randint(0, 255) for _ in range(rng.randint(0, 12))]
            if len(data) > 600 and rng.random() < 0.9: data = data[:rng.randint(0, 600)]
            yield "decode", {"data": data}
        # ---- mutants of the seed datagrams
        seeds = [list(rfc_encode(m)) for m in seed_messages()]
        if thorough: seeds += [list(rfc_encode(g_message(rng)))[:80] for _ in range(12)]
        allm = []
        for sd in seeds:
            allm.append(sd)
            allm.extend(mutants(sd))
        if thorough and len(allm) <= n_mut:
            for d in allm: yield "decode_mut", {"data": d}
        else:
            for d in rng.sample(allm, min(n_mut, len(allm))): yield "decode_mut", {"data": d}
        for d in allm: yield "decode_oracle", {"data": d}
        # the receive paths (generic_udp._received_datagram, udp6.datagram_msg_received): a sample through the model, the rest oracle-only
        tr = hand + allm[::7]
        for j, d in enumerate(rng.sample(tr, min(len(tr), max(8, n // 12)))): yield "transport", {"site": ["generic_udp", "udp6"][j % 2], "data": d}
        for j, d in enumerate(tr): yield "transport_oracle", {"site": ["generic_udp", "udp6"][j % 2], "data": d}
        # all 255 substitutions and all 256 one-byte insertions: two seeds (first 64 bytes) in quick; the nine fixed seeds in thorough
        # (substitution at every byte, insertion at the first 64 positions and the last 16)
        for sd in (seeds[:9] if thorough else [seeds[1], seeds[4]]):
            for i, b in enumerate(sd if thorough else sd[:64]):
                for x in range(256):
                    if x != b: yield "decode_oracle", {"data": sd[:i] + [x] + sd[i + 1:]}
            for i in sorted(set(list(range(min(64, len(sd) + 1))) + list(range(max(0, len(sd) - 15), len(sd) + 1)))):
                for x in range(256): yield "decode_oracle", {"data": sd[:i] + [x] + sd[i:]}
        for k in range(n * 4 if not thorough else n * 2):
            base = rfc_encode(g_message(rng))
            yield "decode_oracle", {"data": random_mutation(rng, base) if k % 4 else list(base)}
        # datagrams up to the 64 kB datagram size, untruncated, and mutations of them
        for k in range(12 if not thorough else 120):
            base = rfc_encode(g_message(rng, True))
            yield "decode_oracle", {"data": random_mutation(rng, base) if k % 3 else list(base)}
        # ---- kernels
        ext_table = [0, 1, 12, 13, 14, 15, 267, 268, 269, 270, 65802, 65803, 65804, 65805, 65806, 70000, -1, -13]
        for k in range(n_ext):
            if k < len(ext_table): yield "ext_field", {"op": "write", "value": ext_table[k]}
            elif k % 3 == 0: yield "ext_field", {"op": "write", "value": rng.choice([rng.randint(0, 300), rng.randint(0, 66000), rng.randint(-5, 70000)])}
            else:
                nib = rng.choice([rng.randint(0, 15), 13, 14, 12, 15, 16, -1])
                yield "ext_field", {"op": "read", "value": nib, "raw": [rng.choice([0, 255, rng.randint(0, 255)]) for _ in range(rng.choice([0, 1, 2, 3, 5]))]}
        for k in range(n_val):
            num = rng.choice(KNOWN_NUMBERS + [0, 2, 10, 19, 31, 100, 65000, 70000])
            r = rng.random()
            if r < 0.4:
                try: raw = list(rfc_value(rfc_format(num), g_value(rng, rfc_format(num))))
                except NotRepresentable: raw = []
            elif r < 0.6: raw = [0] * rng.randint(1, 3) + [rng.randint(0, 255) for _ in range(rng.randint(0, 4))]
            else: raw = [rng.choice([rng.randint(0, 255), 0xC3, 0xA9, 0xE2, 0x82, 0xAC, 0xED, 0xA0, 0xF0, 0x9F, 0x98, 0x80, 0x61]) for _ in range(rng.randint(0, 9))]
            yield "value", {"number": num, "raw": raw[:400]}
        utf_table = [[0xC0, 0x80], [0xC1, 0xBF], [0xC2, 0x80], [0xDF, 0xBF], [0xE0, 0x9F, 0xBF], [0xE0, 0xA0, 0x80], [0xED, 0x9F, 0xBF], [0xED, 0xA0, 0x80], [0xEE, 0x80, 0x80],
                     [0xEF, 0xBF, 0xBF], [0xF0, 0x8F, 0xBF, 0xBF], [0xF0, 0x90, 0x80, 0x80], [0xF4, 0x8F, 0xBF, 0xBF], [0xF4, 0x90, 0x80, 0x80], [0xF5, 0x80, 0x80, 0x80],
                     [0x80], [0xBF], [0xFF], [0xFE], [0xE2, 0x82], [0xF0, 0x9F, 0x98], [0x61, 0xC3], [0xC3, 0x28], [0xE2, 0x28, 0xA1], [0xF8, 0x88, 0x80, 0x80, 0x80], []]
        for k in range(n_utf):
            if k < len(utf_table): yield "utf8", {"op": "decode", "raw": utf_table[k]}
            elif k % 3 == 0: yield "utf8", {"op": "encode", "cps": [rng.choice([g_cp(rng), g_cp(rng), rng.choice(CP_BOUNDARY), rng.randint(0xD7F0, 0xE010)]) for _ in range(rng.randint(0, 6))]}
            elif k % 3 == 1: yield "utf8", {"op": "decode", "raw": random_mutation(rng, rfc_utf8_encode([g_cp(rng) for _ in range(rng.randint(1, 5))]))}
            else: yield "utf8", {"op": "decode", "raw": [rng.choice([rng.randint(0, 255), rng.randint(0x80, 0xBF), rng.randint(0xC0, 0xF7)]) for _ in range(rng.randint(1, 6))]}
        if thorough:
            # exhaustive small scope (validation of the tie): every 1- and 2-byte string through the UTF-8 codec, every nibble/first-byte pair through read
            for a in range(256): yield "utf8", {"op": "decode", "raw": [a]}
            for a in range(0xC0, 0x100):
                for b in range(0x70, 0xD0, 3): yield "utf8", {"op": "decode", "raw": [a, b, 0x80]}
            for nib in range(0, 16):
                for raw in ([], [0], [255], [1, 2], [255, 255], [255, 255, 7]): yield "ext_field", {"op": "read", "value": nib, "raw": raw}

    # ------------------------------------------------------------------ implementation
    def impl(self, stream, inp):
        import aiocoap
        from aiocoap import Message
        from aiocoap.message import Direction
        if stream in ("encode", "encode_oracle"):
            res = {}
            try: res["rfc"] = bv(rfc_encode(inp))
            except NotRepresentable: res["rfc"] = None
            try:
                msg = build_message(inp)
                enc = msg.encode()
            except Exception as e:
                res["encoded"] = exn(e); res["decoded"] = exn(e); return res
            res["encoded"] = bv(enc)
            try: res["decoded"] = msg_view(Message.decode(enc))
            except Exception as e: res["decoded"] = exn(e)
            return res
        if stream in ("decode", "decode_mut", "decode_oracle"):
            data = bytes(bx(inp["data"]))
            try: m = Message.decode(data)
            except Exception as e:
                res = {"decoded": exn(e), "reencoded": exn(e), "redecoded": exn(e)}
                if stream != "decode_oracle": res["rfc_raw"] = raw_view(rfc_parse_raw(data))
                return res
            res = {"decoded": msg_view(m)}
            if stream != "decode_oracle": res["rfc_raw"] = raw_view(rfc_parse_raw(data))
            else:
                # (observation, not modelled) a parsed message is labelled INCOMING and refuses to be encoded as it is
                try: m.encode(); res["reencode_as_parsed"] = "ok"
                except Exception as e: res["reencode_as_parsed"] = exn(e)
            m.direction = Direction.OUTGOING
            try: enc = m.encode()
            except Exception as e:
                res["reencoded"] = exn(e); res["redecoded"] = exn(e)
                return res
            res["reencoded"] = bv(enc)
            try: res["redecoded"] = msg_view(Message.decode(enc))
            except Exception as e: res["redecoded"] = exn(e)
            return res
        if stream in ("transport", "transport_oracle"):
            got = []; logged = []
            class Mman:
                def dispatch_message(self, m): got.append(msg_view(m))
                def dispatch_error(self, e, a): got.append("error")
            class Log:
                def warning(self, fmt, *a, **k): logged.append(fmt)
                def info(self, fmt, *a, **k): logged.append(fmt)
                debug = error = info
            data = bytes(bx(inp["data"]))
            try:
                if inp.get("site", "generic_udp") == "generic_udp":
                    from aiocoap.transports.generic_udp import GenericMessageInterface
                    class MI(GenericMessageInterface):
                        async def recognize_remote(self, remote): return False
                    MI(Mman(), Log(), None)._received_datagram("peer", data)
                else:
                    # udp6.py datagram_msg_received, run on a stand-in for self (no socket): log, _ctx are all it touches
                    from aiocoap.transports.udp6 import MessageInterfaceUDP6
                    class Stub: pass
                    st = Stub(); st.log = Log(); st._ctx = Mman()
                    MessageInterfaceUDP6.datagram_msg_received(st, data, [], 0, ("::1", 5683, 0, 0))
                raised = None
            except Exception as e: raised = exn(e)
            dropped = [f for f in logged if "unparsable" in f.lower()]
            other = [f for f in logged if "unparsable" not in f.lower() and "pktinfo" not in f]
            outcome = ("escaped:" + raised[4:]) if raised else "dispatched" if len(got) == 1 and not dropped else "dropped" if len(dropped) == 1 and not got else "confused"
            return {"outcome": outcome, "message": got[0] if outcome == "dispatched" else None, "n_dispatched": len(got), "n_dropped": len(dropped), "other_log": other}
        if stream == "ext_field":
            from aiocoap import options as o
            try:
                if inp["op"] == "write": a, b = o._write_extended_field_value(inp["value"])
                else: a, b = o._read_extended_field_value(inp["value"], bytes(inp["raw"]))
                return [int(a), list(b)]
            except Exception as e: return exn(e)
        if stream == "value":
            from aiocoap.numbers.optionnumbers import OptionNumber
            try: opt = OptionNumber(inp["number"]).create_option(decode=bytes(bx(inp["raw"])))
            except Exception as e: return {"decoded": exn(e), "encoded": exn(e)}
            res = {"decoded": opt_view(opt)}
            try: res["encoded"] = bv(opt.encode())
            except Exception as e: res["encoded"] = exn(e)
            return res
        if stream == "utf8":
            from aiocoap.numbers.optionnumbers import OptionNumber
            from aiocoap.optiontypes import StringOption
            o = StringOption(OptionNumber.URI_PATH)
            try:
                if inp["op"] == "decode": o.decode(bytes(inp["raw"])); return [ord(c) for c in o.value]
                o.value = "".join(chr(c) for c in inp["cps"]); return list(o.encode())
            except Exception as e: return exn(e)
        raise ValueError(stream)

    # ------------------------------------------------------------------ model
    def model(self, stream, inp):
        if stream == "encode":
            return "(encode_trace %s, bv (rfc_encode (canonical %s)))" % (g_msg(inp), g_msg(inp))
        if stream in ("decode", "decode_mut"):
            return "decode_trace_spec %s" % gbx(inp["data"])
        if stream == "transport":
            return "received_trace handles_%s %s" % (inp["site"], gbx(inp["data"]))
        if stream == "ext_field":
            if inp["op"] == "write": return "write_extended_field_value %s" % gz(inp["value"])
            return "read_extended_field_value %s %s" % (gz(inp["value"]), fw.gbytes(inp["raw"]))
        if stream == "value":
            return "value_trace %s %s" % (gz(inp["number"]), gbx(inp["raw"]))
        if stream == "utf8":
            if inp["op"] == "decode": return "utf8_decode %s" % fw.gbytes(inp["raw"])
            return "utf8_encode %s" % fw.gbytes(inp["cps"])
        return None

    def decode(self, stream, inp, parsed):
        p = fw.plain(parsed)
        def m(x, f):
            if x["c"] == "Ok": return f(x["a"][0])
            e = x["a"][0]
            if isinstance(e, dict): return "exn:UnicodeEncodeError" if e == {"c": "OtherError", "a": [0]} else "exn:%r" % (e,)
            return "exn:" + {"StructError": "error"}.get(e, e)
        def bview(x): return x["a"][0] if x["c"] == "BFull" else {"D": [x["a"][0], x["a"][1]]}
        def oview(o):
            n, k, ints, b = o
            return [n, k, ints, bview(b)]
        def mview(v):
            t, c, mid, tok, opts, pay = v
            return [t, c, mid, bview(tok), [oview(o) for o in opts], bview(pay)]
        if stream == "encode":
            enc, dec, rfc = p          # Coq prints ((a, b), c) as (a, b, c)
            return {"rfc": bview(rfc) if legal_message(inp) else None, "encoded": m(enc, bview), "decoded": m(dec, mview)}
        if stream in ("decode", "decode_mut"):
            d, e, r, spec = p                       # ((a, b, c), d) is printed flat
            if spec == "None": sv = None
            else:
                t, c, mid, tok, opts, pay = spec["a"][0]
                sv = [t, c, mid, bview(tok), [[n, bview(v)] for n, v in opts], bview(pay)]
            return {"decoded": m(d, mview), "reencoded": m(e, bview), "redecoded": m(r, mview), "rfc_raw": sv}
        if stream == "transport":
            if p == "RxDropped": return {"outcome": "dropped", "message": None, "n_dispatched": 0, "n_dropped": 1, "other_log": []}
            if p["c"] == "RxDispatched": return {"outcome": "dispatched", "message": mview(p["a"][0]), "n_dispatched": 1, "n_dropped": 0, "other_log": []}
            e = p["a"][0]
            return {"outcome": "escaped:" + (e if isinstance(e, str) else repr(e)), "message": None, "n_dispatched": 0, "n_dropped": 0, "other_log": []}
        if stream == "ext_field": return m(p, lambda v: [v[0], v[1]])
        if stream == "value":
            d, e = p
            return {"decoded": m(d, oview), "encoded": m(e, bview)}
        if stream == "utf8": return m(p, lambda v: v)
        raise ValueError(stream)

    # ------------------------------------------------------------------ oracle: the property on the implementation's behaviour
    def oracle(self, stream, inp, res):
        if isinstance(res, dict) and "harness_exception" in res:
            return ("C01:crash:%s:%s" % (res["harness_exception"], res["where"]), "harness could not run the implementation: %s" % res["text"])
        if stream in ("encode", "encode_oracle"): return self.oracle_encode(inp, res)
        if stream in ("decode", "decode_mut", "decode_oracle"): return self.oracle_decode(inp, res)
        if stream in ("transport", "transport_oracle"):
            data = bytes(bx(inp["data"])); spec = rfc_parse(data); site = inp.get("site", "generic_udp")
            if res["outcome"].startswith("escaped:"):
                return ("C01:transport-exception:%s:%s" % (site, res["outcome"][8:]), "%s left the %s receive path on %s" % (res["outcome"][8:], site, data[:40].hex()))
            if res["n_dispatched"] + res["n_dropped"] != 1 or res["outcome"] == "confused" or res["other_log"]:
                return ("C01:transport-not-exactly-one:" + site, "datagram %s: dispatched %d, dropped-with-warning %d, other log %r" % (data[:40].hex(), res["n_dispatched"], res["n_dropped"], res["other_log"]))
            if spec is not None and spec != "not-utf8" and res["message"] != spec:
                return ("C01:transport-wellformed-not-dispatched:" + site, "well-formed datagram %s was not handed to the message manager as the RFC reads it" % data[:40].hex())
            if spec == "not-utf8" and res["outcome"] == "dispatched": return ("C01:invalid-utf8-accepted", "datagram %s dispatched although a string option is not UTF-8" % data[:40].hex())
            return None
        if stream == "ext_field":
            v = inp["value"]
            if inp["op"] == "write":
                if 0 <= v <= EXT_MAX:
                    nib, ext = rfc_ext(v)
                    if res != [nib, list(ext)]:
                        if v == EXT_MAX and res == "exn:ValueError": return ("C01:ext-field-65804-unencodable", "_write_extended_field_value(65804) raised ValueError; RFC 7252: 14, FF FF")
                        return ("C01:ext-write-not-rfc", "_write_extended_field_value(%d) = %r, RFC 7252 3.1: %r" % (v, res, [nib, list(ext)]))
                elif res != "exn:ValueError": return ("C01:ext-write-out-of-range", "_write_extended_field_value(%d) = %r" % (v, res))
                return None
            raw = inp["raw"]; need = {13: 1, 14: 2}.get(v, 0)
            if 0 <= v <= 14 and len(raw) >= need:
                want = [v if v < 13 else raw[0] + 13 if v == 13 else raw[0] * 256 + raw[1] + 269, raw[need:]]
                if res != want: return ("C01:ext-read-not-rfc", "_read_extended_field_value(%d, %r) = %r, RFC: %r" % (v, raw, res, want))
            elif res != "exn:UnparsableMessage": return ("C01:ext-read-exception", "_read_extended_field_value(%d, %r) = %r" % (v, raw, res))
            return None
        if stream == "value":
            raw = bytes(bx(inp["raw"])); want = rfc_interp(inp["number"], raw)
            if want is None:
                if res["decoded"] != "exn:UnicodeDecodeError": return ("C01:value-invalid-utf8-accepted", "option %d value %s -> %r" % (inp["number"], raw.hex(), res["decoded"]))
                return None
            if res["decoded"] != want: return ("C01:value-misread", "option %d value %s read as %r, RFC: %r" % (inp["number"], raw.hex(), res["decoded"], want))
            msg = view_to_message([0, 0, 0, [], [want], []])
            if msg is not None:
                canon = bv(rfc_value(msg["opts"][0][1], msg["opts"][0][2]))
                if res["encoded"] != canon: return ("C01:value-encode-not-rfc", "option %d value re-encoded as %r, RFC: %r" % (inp["number"], res["encoded"], canon))
            return None
        if stream == "utf8":
            if inp["op"] == "decode":
                want = rfc_utf8_decode(bytes(inp["raw"]))
                want = "exn:UnicodeDecodeError" if want is None else want
            else:
                try: want = list(rfc_utf8_encode(inp["cps"]))
                except NotRepresentable: want = "exn:UnicodeEncodeError"
            if res != want: return ("C01:utf8-" + inp["op"], "%r -> %r, RFC 3629: %r" % (inp, res, want))
            return None
        return None

    def oracle_encode(self, inp, res):
        enc = res["encoded"]
        try: want = bv(rfc_encode(inp)); legal = True
        except Inexpressible as e:
            want = None; legal = False; why = str(e)
        except NotRepresentable:
            # not in the domain of the round trip; but if only the CLASS of some option object differs from its number's, the bytes
            # are still defined by section 3 (C01_encode_is_rfc_any_class), and inexpressible deltas / lengths must still be refused
            try: want_any = bv(rfc_encode(inp, any_class=True))
            except Inexpressible as e: want = None; legal = False; why = str(e)
            except NotRepresentable: return None
            else:
                if isinstance(enc, str): return ("C01:encode-exception:any-class:" + enc[4:], "Message.encode raised %s although every value is legal for its option object's class" % enc[4:])
                if enc != want_any: return ("C01:encode-not-rfc:any-class", "Message.encode produced %r, RFC 7252 section 3: %r" % (enc, want_any))
                return None
        if not legal:
            # header, token and every value legal, but section 3 cannot express a delta / value length: refused, never mis-framed
            if enc != "exn:ValueError":
                return ("C01:inexpressible-not-rejected", "Message.encode gave %r for a message with %s (outside 0..65804); expected ValueError" % (enc, why))
            return None
        if isinstance(enc, str):
            if enc == "exn:ValueError" and has_ext_max(inp["opts"]):
                return ("C01:ext-field-65804-unencodable", "Message.encode raised ValueError for an option delta/length of 65804 = 65535 + 269, which RFC 7252 3.1 can express")
            return ("C01:encode-exception:" + enc[4:], "Message.encode raised %s on a legal message" % enc[4:])
        if enc != want: return ("C01:encode-not-rfc", "Message.encode produced %r, RFC 7252 section 3: %r" % (enc, want))
        dec = res["decoded"]
        if isinstance(dec, str): return ("C01:roundtrip-exception:" + dec[4:], "Message.decode(encode(m)) raised %s" % dec[4:])
        d = view_diff(dec, expected_view(inp))
        if d is not None: return ("C01:roundtrip-field:" + d, "decode(encode(m)) differs from m in %s: %r vs %r" % (d, dec, expected_view(inp)))
        return None

    def oracle_decode(self, inp, res):
        data = bytes(bx(inp["data"]))
        d = res["decoded"]
        spec = rfc_parse(data)
        if isinstance(d, str):
            if d != "exn:UnparsableMessage": return ("C01:decode-exception:" + d[4:], "%s left Message.decode on %s" % (d[4:], data[:40].hex()))
            if spec is not None and spec != "not-utf8": return ("C01:wellformed-rejected", "datagram %s is well-formed under RFC 7252 section 3 but was rejected" % data[:40].hex())
            return None
        if spec == "not-utf8": return ("C01:invalid-utf8-accepted", "datagram %s has a string option that is not UTF-8 but was parsed" % data[:40].hex())
        if spec is not None:
            f = view_diff(d, spec)
            if f is not None: return ("C01:wellformed-misparsed:" + f, "datagram %s parsed as %r, RFC 7252 section 3 reads %r" % (data[:40].hex(), d, spec))
        if res.get("reencode_as_parsed", "exn:AssertionError") not in ("exn:AssertionError", "ok"):
            return ("C01:parsed-not-encodable-as-is:" + res["reencode_as_parsed"][4:], "encode() of the message as parsed (direction INCOMING) raised %s, not the direction assertion" % res["reencode_as_parsed"][4:])
        e = res["reencoded"]
        if isinstance(e, str):
            if e == "exn:ValueError" and ext_max_in_datagram(data):
                return ("C01:ext-field-65804-unencodable", "parsed message with an option delta/length of 65804 cannot be re-encoded (ValueError)")
            return ("C01:reencode-exception:" + e[4:], "the message parsed from %s cannot be encoded: %s" % (data[:40].hex(), e[4:]))
        r = res["redecoded"]
        if isinstance(r, str): return ("C01:parsed-not-roundtrip:exception:" + r[4:], "decode(encode(parsed)) raised %s for %s" % (r[4:], data[:40].hex()))
        f = view_diff(r, d)
        if f is not None: return ("C01:parsed-not-roundtrip:" + f, "decode(encode(parsed)) differs from parsed in %s for %s" % (f, data[:40].hex()))
        m = view_to_message(d)
        if m is not None and legal_message(m):
            want = bv(rfc_encode(m))
            if e != want: return ("C01:encode-not-rfc", "parsed message re-encoded as %r, RFC 7252 section 3: %r" % (e, want))
        return None

    def nontrivial(self, stream, inp, res):
        if stream in ("encode", "encode_oracle"): ok = len(inp["opts"]) > 0
        elif stream.startswith("decode") or stream.startswith("transport"):
            d = bx(inp["data"]); ok = len(d) >= 4 and d[0] // 64 == 1
        else: ok = True
        return fw.jdump([stream, inp]) if ok else None

PROPERTY = C01()
