"""C10 — message-layer reactions follow the RFC 7252 type rules.

Correspondence of Model/C10.v (dispatch slice of MessageManager + the parts of TokenManager it talks to) with the real
Context / TokenManager / MessageManager / Site / Resource objects under the virtual-time loop, real udp6 endpoint
addresses (multicast flags, as_response_address) and a recording message interface."""
import os, sys, socket, asyncio
import fw
from fw import gz, gbool, glist, gopt

CON, NON, ACK, RST = 0, 1, 2, 3
MT = ["CON", "NON", "ACK", "RST"]
EMPTY_ACK_DELAY = 100000
PEERS = {0: "2001:db8::1", 1: "2001:db8::2", 2: "fe80::3", 100: "ff02::fd", 101: "ff05::1234"}
LOCALS = {1: "2001:db8::100", 2: "ff02::fd"}
PATHS = {0: "slow", 1: "fast", 2: "absent", 3: "boom"}


class _Iface:
    """stands in for the MessageInterfaceUDP6 a UDP6EndpointAddress weakly refers to"""
    def _local_port(self): return 5683
_IFACE = _Iface()

def mk_remote(peer, local):
    from aiocoap.transports import udp6
    pktinfo = None if local == 0 else udp6._in6_pktinfo.pack(socket.inet_pton(socket.AF_INET6, LOCALS[local]), 0)
    return udp6.UDP6EndpointAddress((PEERS[peer], 5683, 0, 0), _IFACE, pktinfo=pktinfo)

_RPEER = {v: k for k, v in PEERS.items()}
_RLOCAL = None
def canon_remote(r):
    from aiocoap.transports import udp6
    global _RLOCAL
    if _RLOCAL is None:
        _RLOCAL = {socket.inet_pton(socket.AF_INET6, v): k for k, v in LOCALS.items()}
    peer = _RPEER[r.sockaddr[0]]
    if r.pktinfo is None: return [peer, 0]
    addr, _ = udp6._in6_pktinfo.unpack_from(r.pktinfo)
    return [peer, _RLOCAL[addr]]

def canon_msg(m):
    """header-level view of a message: [type, code, mid, token bytes, option numbers, payload bytes]"""
    return [int(m.mtype), int(m.code), m.mid, list(m.token), sorted(int(o.number) for o in m.opt.option_list()), list(m.payload)]


class Driver:
    """Runs one event script against the real stack."""
    def __init__(self):
        import aiocoap, aiocoap.resource as resource
        from aiocoap import Message
        import simloop, simnet
        self.aiocoap = aiocoap
        self.loop = simloop.VLoop()
        simnet.patch_random(None, 0, 0)
        drv = self
        self.h = []; self.c = []
        self.futs = []          # handler futures in start order

        METHODS = ["get", "post", "put", "delete", "fetch", "patch", "ipatch"]
        async def slow(self, request):
            k = len(drv.futs); fut = drv.loop.create_future(); drv.futs.append(fut)
            drv.h.append(["start", k])
            try:
                code, nr, pl = await fut
            except asyncio.CancelledError:
                drv.h.append(["cancel", k]); raise
            resp = Message(code=aiocoap.numbers.codes.Code(code), payload=bytes(pl))
            if nr is not None: resp.opt.no_response = nr
            return resp
        async def fast(self, request): return Message(payload=b"f")
        async def boom(self, request): raise RuntimeError("boom")
        def mk(name, f): return type(name, (resource.Resource,), {"render_" + m: f for m in METHODS})
        Slow, Fast, Boom = mk("Slow", slow), mk("Fast", fast), mk("Boom", boom)
        site = resource.Site()
        site.add_resource(["slow"], Slow()); site.add_resource(["fast"], Fast()); site.add_resource(["boom"], Boom())
        self.ctx, self.tman, self.mman, self.mi = simnet.make_stack(self.loop, site)
        self.simnet = simnet
        self.nreq = 0

    # ------------------------------------------------------------------ events
    def build(self, w):
        """wire description -> datagram bytes (through the real encoder)"""
        from aiocoap import Message
        from aiocoap.numbers.codes import Code
        from aiocoap.numbers.types import Type
        m = Message(mtype=Type(w["t"]), mid=w["mid"], code=Code(w["c"]), token=bytes(w["tok"]), payload=bytes(w.get("pl", [])))
        if 1 <= w["c"] < 32: m.opt.uri_path = (PATHS[w.get("path", 0)],)
        if w.get("obs") is not None: m.opt.observe = w["obs"]
        if w.get("nr") is not None: m.opt.no_response = w["nr"]
        return m.encode()

    def step(self, ev):
        k = ev[0]
        if k == "recv":
            _, peer, local, w = ev
            self.simnet.inject(self.loop, self.mman, self.build(w), mk_remote(peer, local))
        elif k == "respond":
            _, i, code, nr, pl = ev
            if 0 <= i < len(self.futs) and not self.futs[i].done():
                self.futs[i].set_result((code, nr, pl))
            self.loop.drain()
        elif k == "request":
            _, peer, mtype, observe = ev
            from aiocoap import Message
            from aiocoap.pipe import Pipe
            from aiocoap.numbers.types import Type
            q = self.nreq; self.nreq += 1
            msg = Message(code=self.aiocoap.GET, mtype=None if mtype is None else Type(mtype))
            if observe: msg.opt.observe = 0
            msg.remote = mk_remote(peer, 0)
            pipe = Pipe(msg, self.ctx.log)
            def on_event(e, q=q):
                if e.message is not None:
                    self.c.append(["deliver", q] + canon_msg(e.message) + [bool(e.is_last)])
                else:
                    self.c.append(["fail", q, type(e.exception).__name__ if not isinstance(e.exception, type) else e.exception.__name__])
                return not e.is_last
            pipe.on_event(on_event)
            self.loop.call(self.tman.request, pipe); self.loop.drain()
        elif k == "fire":
            self.loop.fire_next()
        elif k == "wait":
            d = ev[1]; nd = self.loop.next_due()
            target = self.loop._now + d
            if nd is not None and nd < target: target = max(nd, self.loop._now)
            self.loop._now = target
            self.loop.drain()
        else:
            raise ValueError("unknown event %r" % (ev,))

    def collect(self):
        sent = [canon_remote(r) + canon_msg(self.aiocoap.Message.decode(raw, r)) for (t, r, raw) in self.mi.take()]
        h, self.h = self.h, []; c, self.c = self.c, []
        x = []
        for e in self.loop.exceptions:
            ex = e.get("exception"); x.append(type(ex).__name__ if ex is not None else str(e.get("message")))
        self.loop.exceptions.clear()
        return {"t": self.loop.now_us(), "send": sent, "h": h, "c": c, "x": x}

    def run(self, events):
        out = []
        for ev in events:
            self.step(ev); out.append(self.collect())
        return out


def run_script(events):
    d = Driver()
    res = d.run(events)
    # leave nothing behind: cancel what is still pending in the private loop
    for f in d.futs:
        if not f.done(): f.cancel()
    try: d.loop.drain()
    except Exception: pass
    return res


if __name__ == "__main__":
    import json
    sys.path.insert(0, os.path.join(fw.VERIF, "harness"))
    fw.assert_repo()
    evs = json.loads(sys.argv[1])
    for e, r in zip(evs, run_script(evs)): print(e, "\n   ->", r)
