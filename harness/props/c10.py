"""C10 — message-layer reactions follow the RFC 7252 type rules.

Correspondence of Model/C10.v (dispatch slice of MessageManager + the parts of TokenManager it talks to) with the real
Context / TokenManager / MessageManager / Site / Resource objects under the virtual-time loop, real udp6 endpoint
addresses (multicast flags, as_response_address) and a recording message interface."""
import os, sys, socket, asyncio, logging, warnings, itertools
import fw
from fw import gz, gbool, glist, gopt

CON, NON, ACK, RST = 0, 1, 2, 3
MT = ["CON", "NON", "ACK", "RST"]
EMPTY_ACK_DELAY = 100000
# peers (remote socket address, scope id): < 100 unicast, >= 100 multicast groups; v4-mapped and scoped link-local forms included
PEERS = {0: "2001:db8::1", 1: "2001:db8::2", 2: "fe80::3", 3: "::ffff:192.0.2.9", 4: "fe80::4",
         100: "ff02::fd", 101: "ff05::1234", 103: "::ffff:224.0.1.187", 104: "ff02::1"}
PEER_SCOPE = {4: 1, 104: 1}
# local addresses (pktinfo) a datagram was received on: 2 and >= 100 are multicast groups, the others unicast
LOCALS = {1: "2001:db8::100", 2: "ff02::fd", 3: "::ffff:192.0.2.7", 5: "fe80::5", 102: "::ffff:224.0.1.187", 106: "ff05::fd", 107: "::ffff:239.255.255.250"}
LOCAL_IF = {5: 1, 2: 1}
def mc_local(local): return local == 2 or local >= 100
UNI_LOCALS = [1, 1, 1, 3, 5]; MC_LOCALS = [2, 2, 102, 106, 107]
PATHS = {0: "slow", 1: "fast", 2: "absent", 3: "boom"}


class _Iface:
    """stands in for the MessageInterfaceUDP6 a UDP6EndpointAddress weakly refers to"""
    def _local_port(self): return 5683
_IFACE = _Iface()

def mk_remote(peer, local):
    from aiocoap.transports import udp6
    pktinfo = None if local == 0 else udp6._in6_pktinfo.pack(socket.inet_pton(socket.AF_INET6, LOCALS[local]), LOCAL_IF.get(local, 0))
    return udp6.UDP6EndpointAddress((PEERS[peer], 5683, 0, PEER_SCOPE.get(peer, 0)), _IFACE, pktinfo=pktinfo)

_RPEER = {v: k for k, v in PEERS.items()}
_RLOCAL = None
def canon_remote(r):
    from aiocoap.transports import udp6
    global _RLOCAL
    if _RLOCAL is None:
        _RLOCAL = {socket.inet_pton(socket.AF_INET6, v): k for k, v in LOCALS.items()}
    peer = _RPEER[r.sockaddr[0]]
    if r.pktinfo is None: return [peer, 0]
    addr, _ = udp6._in6_pktinfo.unpack_from(r.pktinfo)
    return [peer, _RLOCAL[addr]]

def canon_msg(m):
    """header-level view of a message: [type, code, mid, token bytes, option numbers, payload bytes]"""
    return [int(m.mtype), int(m.code), m.mid, list(m.token), sorted(int(o.number) for o in m.opt.option_list()), list(m.payload)[:4]]


class Driver:
    """Runs one event script against the real stack."""
    def __init__(self, mid0=0, token0=0):
        import aiocoap, aiocoap.resource as resource
        from aiocoap import Message
        import simloop, simnet
        self.aiocoap = aiocoap
        self.loop = simloop.VLoop()
        logging.getLogger("coap").setLevel(logging.CRITICAL); logging.getLogger("coap-server").setLevel(logging.CRITICAL)
        simnet.patch_random(None, mid0, token0)
        drv = self
        self.h = []; self.c = []
        self.futs = []          # handler futures in start order

        METHODS = ["get", "post", "put", "delete", "fetch", "patch", "ipatch"]
        async def slow(self, request):
            k = len(drv.futs); fut = drv.loop.create_future(); drv.futs.append(fut)
            drv.h.append(["start", k])
            try:
                code, nr, pl = await fut
            except asyncio.CancelledError:
                drv.h.append(["cancel", k]); raise
            resp = Message(code=aiocoap.numbers.codes.Code(code), payload=bytes(pl))
            if nr is not None: resp.opt.no_response = nr
            return resp
        async def fast(self, request): return Message(payload=b"f")
        async def boom(self, request): raise RuntimeError("boom")
        def mk(name, f): return type(name, (resource.Resource,), {"render_" + m: f for m in METHODS})
        Slow, Fast, Boom = mk("Slow", slow), mk("Fast", fast), mk("Boom", boom)
        site = resource.Site()
        site.add_resource(["slow"], Slow()); site.add_resource(["fast"], Fast()); site.add_resource(["boom"], Boom())
        self.ctx, self.tman, self.mman, self.mi = simnet.make_stack(self.loop, site)
        self.simnet = simnet
        self.nreq = 0

    # ------------------------------------------------------------------ events
    def build(self, w):
        """wire description -> datagram bytes (through the real encoder)"""
        from aiocoap import Message
        from aiocoap.numbers.codes import Code
        from aiocoap.numbers.types import Type
        m = Message(mtype=Type(w["t"]), mid=w["mid"], code=Code(w["c"]), token=bytes(w["tok"]), payload=bytes(w.get("pl", [])))
        if 1 <= w["c"] < 32: m.opt.uri_path = (PATHS[w.get("path", 0)],)
        if w.get("obs") is not None: m.opt.observe = w["obs"]
        if w.get("nr") is not None: m.opt.no_response = w["nr"]
        return m.encode()

    def step(self, ev):
        k = ev[0]
        if k == "recv":
            _, peer, local, w = ev
            self.simnet.inject(self.loop, self.mman, self.build(w), mk_remote(peer, local))
        elif k == "respond":
            _, i, code, nr, pl = ev
            if 0 <= i < len(self.futs) and not self.futs[i].done():
                self.futs[i].set_result((code, nr, pl))
            self.loop.drain()
        elif k == "request":
            _, peer, mtype, observe = ev
            from aiocoap import Message
            from aiocoap.pipe import Pipe
            from aiocoap.numbers.types import Type
            q = self.nreq; self.nreq += 1
            msg = Message(code=self.aiocoap.GET, mtype=None if mtype is None else Type(mtype))
            if observe: msg.opt.observe = 0
            msg.remote = mk_remote(peer, 0)
            pipe = Pipe(msg, self.ctx.log)
            def on_event(e, q=q):
                if e.message is not None:
                    self.c.append(["deliver", q] + canon_msg(e.message) + [bool(e.is_last)])
                else:
                    self.c.append(["fail", q, type(e.exception).__name__ if not isinstance(e.exception, type) else e.exception.__name__])
                return not e.is_last
            pipe.on_event(on_event)
            self.loop.call(self.tman.request, pipe); self.loop.drain()
        elif k == "fire":
            self.loop.fire_next()
        elif k == "wait":
            d = ev[1]; nd = self.loop.next_due()
            target = self.loop._now + d
            if nd is not None and nd < target: target = max(nd, self.loop._now)
            self.loop._now = target
            self.loop.drain()
        else:
            raise ValueError("unknown event %r" % (ev,))

    def collect(self):
        sent = [canon_remote(r) + canon_msg(self.aiocoap.Message.decode(raw, r)) for (t, r, raw) in self.mi.take()]
        h, self.h = self.h, []; c, self.c = self.c, []
        x = []
        for e in self.loop.exceptions:
            ex = e.get("exception"); x.append(type(ex).__name__ if ex is not None else str(e.get("message")))
        self.loop.exceptions.clear()
        return {"t": self.loop.now_us(), "send": sent, "h": h, "c": c, "x": x}

    def run(self, events):
        out = []
        for ev in events:
            self.step(ev); out.append(self.collect())
        return out


def run_script(events):
    mid0, token0, evs = split_init(events)
    d = Driver(mid0, token0)
    res = d.run(evs)
    if len(evs) != len(events): res = [{"t": 0, "send": [], "h": [], "c": [], "x": []}] + res
    # leave nothing behind: cancel what is still pending in the private loop
    for f in d.futs:
        if not f.done(): f.cancel()
    try: d.loop.drain()
    except Exception: pass
    return res


# ====================================================================== Gallina side
GMT = ["CON", "NON", "ACK", "RST"]
def g_remote(peer, local): return "{| rpeer := %d; rlocal := %d |}" % (peer, local)
def g_wire(w):
    isreq = 1 <= w["c"] < 32
    return "{| mtype := %s; code := %s; mid := %s; token := %s; nr := %s; obs := %s; path := %s; payload := [] |}" % (
        GMT[w["t"]], gz(w["c"]), gz(w["mid"]), fw.gbytes(w["tok"]), gopt(w.get("nr"), gz), gopt(w.get("obs"), gz),
        gz(w.get("path", 0) if isreq else -1))
def g_event(ev):
    k = ev[0]
    if k == "recv": return "Recv %s %s" % (g_remote(ev[1], ev[2]), g_wire(ev[3]))
    if k == "respond": return "Respond %s %s %s %s" % (gz(ev[1]), gz(ev[2]), gopt(ev[3], gz), fw.gbytes(ev[4]))
    if k == "request": return "Request %s %s %s" % (gz(ev[1]), gopt(ev[2], lambda t: GMT[t]), gbool(ev[3]))
    if k == "fire": return "Fire"
    if k == "wait": return "Wait %s" % gz(ev[1])
    raise ValueError(ev)

def _opt(x):   # plain() of an option
    return None if x == "None" else x["a"][0]
def d_wire(m):
    opts = ([6] if _opt(m["obs"]) is not None else []) + ([258] if _opt(m["nr"]) is not None else [])
    return [GMT.index(m["mtype"]), m["code"], m["mid"], list(m["token"]), opts, list(m["payload"])[:4]]
def d_outputs(t, outs):
    r = {"t": t, "send": [], "h": [], "c": [], "x": []}
    for o in outs:
        c, a = (o, []) if isinstance(o, str) else (o["c"], o["a"])
        if c == "Send": r["send"].append([a[0]["rpeer"], a[0]["rlocal"]] + d_wire(a[1]))
        elif c == "StartHandler": r["h"].append(["start", a[0]])
        elif c == "CancelHandler": r["h"].append(["cancel", a[0]])
        elif c == "Deliver": r["c"].append(["deliver", a[0]] + d_wire(a[1]) + [a[2]])
        elif c == "Fail": r["c"].append(["fail", a[0], a[1] if isinstance(a[1], str) else a[1]["c"]])
        elif c == "LoopException": r["x"].append(a[0] if isinstance(a[0], str) else a[0]["c"])
        else: raise ValueError("unknown output %r" % (o,))
    return r


# ====================================================================== event-script generators
RESP_CODES = [69, 68, 65, 64, 95, 96, 127, 128, 132, 133, 159, 160, 165, 191]
NR_VALUES = [None, None, 0, 2, 8, 16, 26, 24, 10, 1, 4, 32, 127, 255]
BOUNDARY_WAITS = [0, 1, 50000, 99999, 100000, 100001, 150000]
CODE_CLASSES = {"empty": [0], "request": [1, 2, 3, 4, 5, 7, 8, 31], "response": [64, 69, 132, 160, 191],
                "reserved": [32, 45, 63, 192, 200, 223], "signalling": [224, 225, 255]}

def W(t, c, mid, tok, path=0, nr=None, obs=None):
    w = {"t": t, "c": c, "mid": mid, "tok": list(tok)}
    if 1 <= c < 32: w["path"] = path
    if nr is not None: w["nr"] = nr
    if obs is not None: w["obs"] = obs
    return w

def own_token(q, token0=0):   # token of the q-th client request (the harness pins the initial token counter, 0 unless an "init" event says otherwise)
    n = (token0 + q + 1) % 2 ** 64; return list(n.to_bytes(8, "big").lstrip(b"\0"))

def split_init(events):
    """a script may start with ["init", mid0, token0]: the initial message-id / token counters (to reach the wrap-arounds)"""
    if events and events[0][0] == "init": return events[0][1], events[0][2], events[1:]
    return 0, 0, events

def gen_table(rng):
    """one cell of the reaction table, with a random context before and a random timing after"""
    t = rng.randrange(4); cls = rng.choice(list(CODE_CLASSES)); c = rng.choice(CODE_CLASSES[cls])
    known = rng.random() < 0.5; local = rng.choice(MC_LOCALS) if rng.random() < 0.3 else rng.choice(UNI_LOCALS)
    peer = rng.choice([0, 0, 1, 3, 4, 100, 103, 104]); evs = []; nreq = 0
    if rng.random() < 0.3:   # unrelated traffic first
        evs.append(["request", rng.choice([1, 2]), rng.choice([None, 0, 1]), False]); nreq += 1
    tok = [rng.randrange(256) for _ in range(rng.choice([0, 1, 1, 2, 8]))]
    mid = rng.randrange(65536)
    if known:
        obs = rng.random() < 0.4
        how = rng.choice(["same", "same", "mcast"]) if peer < 100 else "same"
        evs.append(["request", 100 if how == "mcast" else peer, rng.choice([None, None, 1]) , obs]); tok = own_token(nreq); nreq += 1
        if t in (ACK, RST) and rng.random() < 0.7: mid = rng.choice([0, 0, 1])     # the mid our request went out with
    path = rng.choice([0, 0, 0, 1, 1, 2, 3]); nr = rng.choice(NR_VALUES)
    obsopt = rng.choice([None, None, 7]) if cls == "response" else None
    evs.append(["recv", peer, local, W(t, c, mid, tok, path, nr, obsopt)])
    # epilogue: handler speed
    for _ in range(rng.randrange(0, 4)):
        k = rng.random()
        if k < 0.35: evs.append(["wait", rng.choice(BOUNDARY_WAITS)])
        elif k < 0.6: evs.append(["fire"])
        elif k < 0.9: evs.append(["respond", 0, rng.choice(RESP_CODES), rng.choice([None, None, None, 2, 26, 0]), [rng.randrange(256)]])
        else: evs.append(["recv", peer, local, W(t, c, mid, tok, path, nr, obsopt)])   # duplicate
    if rng.random() < 0.5: evs += [["wait", 100001], ["fire"]]
    return evs

def gen_piggy(rng):
    """CON/NON request to the slow resource; the handler answers at a chosen instant around EMPTY_ACK_DELAY"""
    peer = rng.choice([0, 1, 3, 4, 100, 103]); local = rng.choice(UNI_LOCALS + UNI_LOCALS + MC_LOCALS); t = rng.choice([CON, CON, CON, NON])
    tok = [rng.randrange(256) for _ in range(rng.choice([0, 1, 2, 4]))]; mid = rng.randrange(65536)
    nr = rng.choice(NR_VALUES); evs = [["recv", peer, local, W(t, rng.choice([1, 2, 4, 5]), mid, tok, 0, nr)]]
    d = rng.choice(BOUNDARY_WAITS + [99999, 100000, 100000])
    evs.append(["wait", d])
    if rng.random() < 0.5: evs.append(["fire"])
    if rng.random() < 0.15: evs.append(["recv", peer, local, evs[0][3]])    # duplicate before the answer
    evs.append(["respond", 0, rng.choice(RESP_CODES), rng.choice([None, None, None, 0, 2, 8, 16, 26]), [rng.randrange(256)]])
    for _ in range(rng.randrange(0, 3)):
        k = rng.random()
        if k < 0.4: evs.append(["fire"])
        elif k < 0.6: evs.append(["wait", rng.choice([1, 100000, 2000000])])
        elif k < 0.8: evs.append(["recv", peer, local, evs[0][3]])          # duplicate after the answer
        else: evs.append(["recv", peer, 1, W(rng.choice([ACK, RST]), 0, rng.choice([0, 1]), [])])   # peer acks / resets the separate response
    return evs

def gen_scenario(rng):
    """adversarial interleavings over small mid / token spaces: duplicates, token reuse (O3), overriding requests,
    backlogged CONs, ACK/RST for our own messages, retransmission give-up"""
    evs = []; slow = 0; nreq = 0
    toks = [[], [1], [2], [1, 2]]
    for _ in range(rng.randrange(4, 22)):
        k = rng.random(); peer = rng.choice([0, 0, 1, 100]); local = rng.choice(UNI_LOCALS) if rng.random() < 0.8 else rng.choice(MC_LOCALS)
        if k < 0.3:
            t = rng.choice([CON, CON, NON]); c = rng.choice([1, 1, 2, 4, 9]); path = rng.choice([0, 0, 0, 1, 2, 3])
            evs.append(["recv", peer, local, W(t, c, rng.randrange(1, 7), rng.choice(toks), path, rng.choice(NR_VALUES))])
            if path == 0 and c <= 7: slow += 1
        elif k < 0.4:
            cls = rng.choice(list(CODE_CLASSES)); c = rng.choice(CODE_CLASSES[cls])
            tok = own_token(rng.randrange(0, nreq + 1)) if rng.random() < 0.6 else rng.choice(toks)
            evs.append(["recv", peer, local, W(rng.randrange(4), c, rng.randrange(0, 7), tok, rng.choice([0, 1, 2]), rng.choice(NR_VALUES), rng.choice([None, None, 3]))])
        elif k < 0.5:
            evs.append(["recv", peer, local, W(rng.choice([ACK, RST]), 0, rng.randrange(0, 6), [])])
        elif k < 0.6:
            evs.append(["request", peer, rng.choice([None, None, 0, 1]), rng.random() < 0.3]); nreq += 1
        elif k < 0.75:
            evs.append(["respond", rng.randrange(0, slow + 1), rng.choice(RESP_CODES), rng.choice([None, None, None, 2, 8, 26]), [rng.randrange(256)]])
        elif k < 0.88:
            evs.append(["fire"])
        else:
            evs.append(["wait", rng.choice(BOUNDARY_WAITS + [2000000, 4000000, 250000000])])
    return evs

def gen_giveup(rng):
    """a CON of ours (request or separate response) is never acknowledged: retransmissions, give-up, everything to that peer fails —
    with a multicast request pending, a backlogged second CON and a running handler for the same peer in random combination"""
    p = rng.choice([0, 1]); evs = []; slow = 0
    pre = [["request", 100, None, rng.random() < 0.3]] if rng.random() < 0.6 else []
    if rng.random() < 0.5: evs += pre; pre = []
    if rng.random() < 0.4:
        evs.append(["recv", p, 1, W(rng.choice([CON, NON]), 1, 50, [7], 0, rng.choice(NR_VALUES))]); slow += 1     # a handler that will be cancelled
    if rng.random() < 0.7:
        evs.append(["request", p, rng.choice([None, 0]), rng.random() < 0.3])
    else:                                                                                                          # our CON is a separate response
        evs += [["recv", p, 1, W(CON, 1, 60, [8])], ["wait", 100000], ["fire"], ["fire"], ["respond", slow, 69, None, [1]]]
    if rng.random() < 0.5: evs.append(["request", p, rng.choice([None, 0, 1]), False])                              # backlogged behind the first
    evs += pre
    fires = rng.choice([4, 5, 5, 6, 7])
    for k in range(fires):
        evs.append(["fire"])
        if rng.random() < 0.15: evs.append(["recv", p, 1, W(rng.choice([ACK, RST]), 0, rng.choice([0, 1, 2]), [])])
        if rng.random() < 0.1: evs.append(["wait", rng.choice([1, 1000000])])
    evs.append(["request", p, None, False])
    evs.append(["respond", 0, 69, None, [2]])
    return evs

def gen_wrap(rng):
    """the 16-bit message-id counter and the 64-bit token counter wrap around while messages of ours are in flight"""
    mid0 = rng.choice([65533, 65534, 65535, 65535]); token0 = rng.choice([0, 2 ** 64 - 3, 2 ** 64 - 2, 2 ** 64 - 1])
    evs = [["init", mid0, token0]]; nreq = 0; slow = 0
    for _ in range(rng.randrange(4, 12)):
        k = rng.random(); peer = rng.choice([0, 1, 2, 100])
        if k < 0.4:
            evs.append(["request", peer, rng.choice([None, 1, 1, 0]), rng.random() < 0.2]); nreq += 1
        elif k < 0.55:
            evs.append(["recv", peer, 1, W(rng.choice([NON, CON]), 1, rng.randrange(1, 5), [rng.randrange(3)], rng.choice([0, 1, 2]))]); slow += 1
        elif k < 0.7:
            evs.append(["recv", peer, 1, W(rng.choice([ACK, RST, ACK]), rng.choice([0, 0, 69]), (mid0 + rng.randrange(0, 6)) % 65536, own_token(rng.randrange(0, nreq + 1), token0) if rng.random() < 0.7 else [])])
        elif k < 0.8:
            evs.append(["recv", peer, 1, W(rng.choice([CON, NON]), 69, rng.randrange(100, 105), own_token(rng.randrange(0, nreq + 1), token0))])
        elif k < 0.9: evs.append(["fire"])
        else: evs += [["wait", 100000], ["fire"], ["respond", rng.randrange(0, slow + 1), 69, None, [1]]]
    return evs

def gen_addr(rng):
    """packed peer / local addresses for the udp6 multicast flags: every form that could be mistaken (v4-mapped, v4-compatible,
    scoped link-local, boundary octets 223/224/239/240, first byte 0xfe/0xff)"""
    def one():
        k = rng.random(); rb = lambda n: [rng.randrange(256) for _ in range(n)]
        a = rng.choice([223, 224, 225, 238, 239, 240, 0, 10, 127, 192, 255])
        if k < 0.15: return [255, rng.choice([0, 1, 2, 5, 14, 255])] + rb(14)
        if k < 0.4: return [0] * 10 + [255, 255, a] + rb(3)
        if k < 0.5: return [0] * 12 + [a] + rb(3)                       # v4-compatible, not mapped
        if k < 0.6: return [0] * 10 + [255, rng.choice([254, 0])] + [a] + rb(3)   # almost mapped
        if k < 0.7: return [254, 128] + [0] * 6 + rb(8)
        if k < 0.8: return [0x20, 0x01, 0x0d, 0xb8] + rb(12)
        if k < 0.9: return [rng.choice([254, 255, 0, 239, 224])] + rb(15)
        return rb(16)
    return {"peer": one(), "scope": rng.choice([0, 0, 1, 77]), "local": one(), "ifidx": rng.choice([0, 1, 9])}

def packed_mc(b):    # the independent rule: ff00::/8 and ::ffff:224.0.0.0/100 (= 224.0.0.0/4 mapped), nothing else
    return b[0] == 0xFF or (b[:12] == [0] * 10 + [255, 255] and 224 <= b[12] <= 239)

def addr_impl(inp):
    from aiocoap.transports import udp6
    peer = socket.inet_ntop(socket.AF_INET6, bytes(inp["peer"]))
    a = udp6.UDP6EndpointAddress((peer, 5683, 0, inp["scope"]), _IFACE, pktinfo=udp6._in6_pktinfo.pack(bytes(inp["local"]), inp["ifidx"]))
    def tri(f):
        try: return bool(f())
        except Exception as e: return "exn:" + type(e).__name__
    resp = tri(lambda: a.as_response_address().pktinfo is not None)
    same = tri(lambda: a.as_response_address() == a and a.as_response_address().sockaddr == a.sockaddr)
    return {"mc": tri(lambda: a.is_multicast), "mcl": tri(lambda: a.is_multicast_locally), "keeps": resp, "same_peer": same}

def addr_oracle(inp, res):
    if "harness_exception" in res: return ("C10:crash:" + str(res.get("where")), str(res))
    what = "peer %s local %s" % (bytes(inp["peer"]).hex(), bytes(inp["local"]).hex())
    if res["mc"] != packed_mc(inp["peer"]): return ("C10:is-multicast-wrong", what + ": is_multicast = %r" % (res["mc"],))
    if res["mcl"] != packed_mc(inp["local"]): return ("C10:is-multicast-locally-wrong", what + ": is_multicast_locally = %r" % (res["mcl"],))
    if res["keeps"] != (not packed_mc(inp["local"])):
        return ("C10:multicast-source-address" if packed_mc(inp["local"]) else "C10:response-address-drops-unicast-source", what + ": as_response_address keeps pktinfo = %r" % (res["keeps"],))
    if res["same_peer"] is not True: return ("C10:response-address-other-peer", what)
    return None

def table_cells():
    """the full finite table, deterministic: type x code class x token known x received on multicast x handler/No-Response"""
    for t in range(4):
        for cls, codes in CODE_CLASSES.items():
            for c in (codes[0], codes[-1]):
                for known in (False, True):
                    for local in (1, 2, 3, 5, 102, 106):
                        variants = [(0, None), (0, 26), (1, None), (1, 2), (2, 8), (3, 16)] if cls == "request" else [(0, None)]
                        for path, nr in variants:
                            evs = []; tok = [9, 9]; mid = 4242
                            if known:
                                evs.append(["request", 0, None, False]); tok = own_token(0)
                                if t in (ACK, RST): mid = 0
                            evs.append(["recv", 0, local, W(t, c, mid, tok, path, nr)])
                            evs += [["wait", 99999], ["respond", 0, 69, None, [1]], ["wait", 1], ["fire"]]
                            yield evs


class C10(fw.Property):
    id = "C10"
    coq_props = "Props/C10.v"
    gen_jobs = ["c03_constants", "c14_message_id"]     # round 7: constants + message-ID successor tie (Proofs/C10Tie.v)
    model_imports = ["Verif.Model.C10"]
    quick_budget = 420
    thorough_budget = 24000
    design_ref = "DESIGN.md section 15 (C10)"
    technique = ("Coq proof over an executable model of MessageManager's dispatch slice (cell-by-cell reaction table, invariants over all event histories) "
                 "+ differential correspondence of the model with the real Context/TokenManager/MessageManager/Site stack under a virtual-time loop")
    level_text = ("Theorems (closed under the global context) over a hand-written executable model of MessageManager's dispatch slice, the TokenManager parts it "
                  "talks to and udp6's multicast flags: the full reaction table (type x code class x token known x received on multicast) for every state "
                  "satisfying an invariant proved along every event history; no CON to a multicast destination for every history; a second invariant "
                  "(every recorded piggy-back opportunity has exactly one pending empty-ACK handle, handle numbers unique, now <= due) along every history, and from "
                  "it: for every history from the initial state a fresh CON request has received at most one ACK under its message ID at any time and exactly one "
                  "once the clock has passed arrival + EMPTY_ACK_DELAY, whatever the handler does; the response travels in that ACK whenever it is ready strictly "
                  "before that instant, and an ACK sent earlier than the response implies the clock reached it (only the timer can send it); afterwards the response "
                  "is separate with a fresh message ID and the request's token. send_message's No-Response / NON-by-default cells for every state. The model is tied "
                  "to the code by running both on the same event scripts (every datagram, handler start/cancel, delivery, failure, loop exception, the clock).")
    level_note = ("Side conditions, explicit in the theorems: O3 (the peer does not reuse the (peer, token) pair in another request while the first is pending; refuted "
                  "without it), no other message from that peer with the same message ID in the history (duplicates are C04's replay), the application sends no "
                  "ACK-typed requests (that no opportunity is recorded under the (peer, mid) of a non-duplicate is proved for every reachable state, C10_fresh_no_opportunity). Shutdown and transport errors are outside the model (no such "
                  "events; C18) and therefore outside the theorems. Time: Fire runs the pending handle with the least (due, creation number) and sets the clock to "
                  "max(now, due); Wait never passes a due handle. Three defects found by this check are fixed in /repo (3a77ec2, 95af16f, a3add01); the oracle keeps "
                  "their signatures. Trusted: Coq kernel + vm_compute; the hand-written model (validated by correspondence only); the virtual-time loop as ideal "
                  "timer service; recording transport. Not modelled: shutdown, transport errors, server-side observe, blockwise.")
    rule = ("streams: table = one cell of type x code class x token known x unicast/multicast x handler/No-Response with random context and timing; "
            "cells = the full table enumerated; piggy = request to a slow handler answered around EMPTY_ACK_DELAY (99999/100000/100001 us, timer before/after); "
            "scenario = adversarial interleavings over small mid/token spaces (duplicates, token reuse, overriding requests, backlog, give-up); "
            "addr = packed peer / local addresses (ff00::/8, v4-mapped 223/224/239/240 boundaries, v4-compatible, almost-mapped, scoped link-local, random) through the real "
            "UDP6EndpointAddress.is_multicast / is_multicast_locally / as_response_address against Model.packed_is_multicast and the rule 'ff00::/8 or mapped 224.0.0.0/4, nothing else'; "
            "wrap = scripts starting at message-id 65533..65535 / token 2^64-3..2^64-1 so that both counters wrap with messages in flight; "
            "giveup = an unacknowledged CON of ours retransmitted until give-up with a multicast request pending / a backlogged CON / a running handler. "
            "Non-trivial = at least one datagram was sent by the stack; distinct by full script.")
    trusted_base = ["hand-written Model/C10.v (validated by all correspondence streams (cells, table, piggy, scenario, giveup, corpus) on every run)",
                    "harness: virtual-time loop (ideal timers), recording message interface, random pinned (mid0 = token0 = 0, ACK_TIMEOUT factor 1.0)"]
    assumptions = ["handlers answer once (no observe on the server side) and do not preset mtype / mid on their response; blockwise not exercised",
                   "no Context.shutdown and no transport error (MessageManager.dispatch_error) in the histories: the model has no such events, 'exactly once' is a theorem about histories without them (a CON request received < EMPTY_ACK_DELAY before shutdown is not acknowledged by design, messagemanager.py:85-89; C18)",
                   "time: Wait never passes a due handle and a due handle may stay unfired while datagrams are processed (model and harness alike); clock jumps over several handles (loop.advance) are not exercised; the < d / d <= boundary of the piggy-back clause is as good as simloop.VLoop.fire_next",
                   "two exchanges of ours with the same (remote, message-id) are never alive at once (needs 65536 messages within one exchange lifetime); the wrap of the counter itself is modelled and exercised",
                   "'fresh message ID' = the next value of our own 16-bit counter; it may coincide numerically with the peer's message ID of the request (independent spaces)"]

    def gen_cases(self, tier, rng, n):
        if tier == "thorough":
            for evs in table_cells(): yield "cells", evs
        else:
            cells = list(table_cells())
            for evs in rng.sample(cells, 60): yield "cells", evs
            n = max(0, n - 60)
        for k in range(n):
            m = k % 10
            if m < 4: yield "table", gen_table(rng)
            elif m < 7: yield "piggy", gen_piggy(rng)
            elif m == 8 and k % 20 == 8:
                for _ in range(8): yield "addr", gen_addr(rng)
            elif m < 9: yield "scenario", gen_scenario(rng)
            elif k % 20 == 9: yield "wrap", gen_wrap(rng)
            else: yield "giveup", gen_giveup(rng)

    def setup(self):
        warnings.simplefilter("ignore")
    def impl(self, stream, inp):
        if stream == "addr": return addr_impl(inp)
        return run_script(inp)
    def model(self, stream, inp):
        if stream == "addr": return "address_flags %s %s" % (fw.gbytes(inp["peer"]), fw.gbytes(inp["local"]))
        mid0, token0, evs = split_init(inp)
        return "snd (run (init %s %s) %s)" % (gz(mid0), gz(token0), glist([g_event(e) for e in evs]))
    def decode(self, stream, inp, parsed):
        if stream == "addr":
            mc, mcl, keeps = fw.plain(parsed); return {"mc": mc, "mcl": mcl, "keeps": keeps, "same_peer": True}
        pre = [{"t": 0, "send": [], "h": [], "c": [], "x": []}] if inp and inp[0][0] == "init" else []
        return pre + [d_outputs(t, outs) for (t, outs) in fw.plain(parsed)]
    def nontrivial(self, stream, inp, res):
        if stream == "addr": return fw.jdump(inp) if isinstance(res, dict) and (res.get("mc") is True or res.get("mcl") is True or inp["peer"][:10] == [0] * 10) else None
        if isinstance(res, list) and any(r["send"] for r in res): return fw.jdump(inp)
        return None
    def oracle(self, stream, inp, res):
        if stream == "addr": return addr_oracle(inp, res)
        return oracle(inp, res)


# ====================================================================== the property, on the implementation's observable behaviour
LIFETIME = 247000000
def _cls(c): return "empty" if c == 0 else "request" if c < 32 else "response" if 64 <= c < 192 else "reserved" if c < 224 else "signalling"
def _suppressed(nr, code): return nr is not None and 64 <= code < 192 and (nr & (1 << ((code >> 5) - 1))) != 0

def oracle(evs, res):
    if isinstance(res, dict): return ("C10:crash:" + str(res.get("where")), "implementation raised %s: %s" % (res.get("harness_exception"), res.get("text")))
    for i, (ev, r) in enumerate(zip(evs, res)):
        if r["x"]:
            mc_pending = any(e[0] == "request" and e[1] >= 100 and e[2] != CON for e in evs[:i])
            sig = "C10:loop-exception:" + r["x"][0] + (":give-up-while-multicast-request-pending" if ev[0] == "fire" and mc_pending and r["x"] == ["AttributeError"] else "")
            return (sig, "event %d %r: exception %s reached the event loop" % (i, ev, r["x"]))
        for s in r["send"]:
            if s[0] >= 100 and s[2] == CON: return ("C10:con-to-multicast", "event %d %r: confirmable message %r sent to a multicast destination" % (i, ev, s))
            if mc_local(s[1]): return ("C10:multicast-source-address", "event %d %r: %r sent with the multicast address it was received on as source" % (i, ev, s))
    token0 = evs[0][2] if evs and evs[0][0] == "init" else 0
    pending = {}      # q -> (peer or None, token, observe): oracle's own account of outstanding client requests
    seen = {}         # (peer, mid) -> (time first seen, replies sent for it) for request-coded messages (deduplication, RFC 7252 4.5)
    reqs = []         # fresh CON / NON requests
    ambiguous = set()
    nreq = 0
    for i, (ev, r) in enumerate(zip(evs, res)):
        now = r["t"]; replies = [s for s in r["send"] if s[2] in (ACK, RST)]
        for c in r["c"]:
            if c[0] == "fail": pending.pop(c[1], None)
        if ev[0] == "request":
            _, peer, mt, observe = ev; q = nreq; nreq += 1
            failed = any(c[0] == "fail" and c[1] == q for c in r["c"])
            if mt == CON and peer >= 100 and not failed: return ("C10:con-to-multicast-not-refused", "event %d: CON request to multicast was not refused" % i)
            if not failed: pending[q] = (None if peer >= 100 else peer, own_token(q, token0), observe)
            if replies: return ("C10:unsolicited-reply", "event %d %r: %r" % (i, ev, replies))
            continue
        if ev[0] != "recv":
            for s in replies:
                if s[2] == RST: return ("C10:unsolicited-reset", "event %d %r: RST %r sent without an incoming message" % (i, ev, s))
            continue
        _, peer, local, w = ev; t, c, mid, tok = w["t"], w["c"], w["mid"], w["tok"]; cls = _cls(c)
        where = "event %d: %s %s mid %d token %r from peer %d (%s)" % (i, MT[t], cls, mid, tok, peer, "multicast" if mc_local(local) else "unicast")
        if cls == "request":
            key = (peer, mid)
            if key in ambiguous: reqs.append({"cut": i, "peer": peer, "mid": mid, "tok": tok}); continue
            if key in seen and now - seen[key][0] <= LIFETIME:
                if now - seen[key][0] == LIFETIME:      # exactly at the boundary: whether the entry has expired depends on timer order; judge nothing
                    ambiguous.add(key); reqs.append({"cut": i, "peer": peer, "mid": mid, "tok": tok}); continue
                if r["h"]: return ("C10:duplicate-processed-again", where + " is a duplicate but a handler was started")
                if t != CON and r["send"]: return ("C10:duplicate-answered", where + " is a non-confirmable duplicate but %r was sent" % r["send"])
                continue
            seen[key] = (now, None)
        if cls == "empty":
            if t == CON:
                if replies != [[peer, 0 if mc_local(local) else local, RST, 0, mid, [], [], []]] or len(r["send"]) != 1:
                    return ("C10:ping-not-reset", where + ": expected exactly one RST, sent %r" % r["send"])
            elif t == NON:
                if r["send"] or r["h"] or r["c"]: return ("C10:unexpected-reaction:NON/empty", where + ": %r" % r)
            elif replies: return ("C10:unexpected-reply:%s/empty" % MT[t], where + ": %r" % replies)
        elif cls == "request":
            if t in (CON, NON):
                k = next((h[1] for h in r["h"] if h[0] == "start"), None)
                reqs.append({"i": i, "peer": peer, "local": local, "mid": mid, "tok": tok, "t0": now, "k": k, "nr": w.get("nr"), "con": t == CON, "w": w})
                if t == NON and any(s[4] == mid and s[0] == peer for s in replies): return ("C10:non-request-acked", where + ": %r" % replies)
            elif replies or r["h"]: return ("C10:unexpected-reaction:%s/request" % MT[t], where + ": %r" % r)
        elif cls == "response":
            if t == RST:
                if replies or any(c[0] == "deliver" for c in r["c"]): return ("C10:unexpected-reaction:RST/response", where + ": %r" % r)
            else:
                q = next((q for q, (p, tk, o) in pending.items() if tk == tok and p == peer), None)
                if q is None: q = next((q for q, (p, tk, o) in pending.items() if tk == tok and p is None), None)
                if q is not None:
                    if not (pending[q][2] and w.get("obs") is not None): pending.pop(q)
                    want = [[peer, 0 if mc_local(local) else local, ACK, 0, mid, [], [], []]] if t == CON else []
                    if replies != want:
                        return ("C10:con-response-not-acked" if t == CON else "C10:unexpected-reply:%s/response-known" % MT[t], where + " matches request %d: expected %r, sent %r" % (q, want, replies))
                else:
                    want = [[peer, local, RST, 0, mid, [], [], []]] if (t == CON and not mc_local(local)) else []
                    if replies != want:
                        sig = ("C10:unknown-con-response-not-reset" if not mc_local(local) else "C10:reset-for-multicast") if t == CON else "C10:unexpected-reply:%s/response-unknown" % MT[t]
                        return (sig, where + " matches no request: expected %r, sent %r" % (want, replies))
        else:
            if replies or r["h"] or any(c[0] == "deliver" for c in r["c"]) or (t in (CON, NON) and (r["send"] or r["c"])):
                return ("C10:unexpected-reaction:%s/%s" % (MT[t], cls), where + ": %r" % r)
    # ---- per request: acknowledged exactly once, piggy-backing, NON answers, No-Response
    for R in reqs:
        if "cut" in R: continue
        i, peer, mid, tok = R["i"], R["peer"], R["mid"], R["tok"]
        end = len(evs)
        for R2 in reqs:            # the (peer, mid) pair is reused after EXCHANGE_LIFETIME: stop looking there
            j = R2.get("cut", R2.get("i"))
            if j > i and R2["peer"] == peer and R2["mid"] == mid: end = min(end, j)
        where = "%s request (event %d) mid %d token %r from peer %d" % ("CON" if R["con"] else "NON", i, mid, tok, peer)
        # side condition (DESIGN.md O3): the peer reuses the token in a new request while this one is not yet acknowledged
        o3 = next((R2.get("i", R2.get("cut")) for R2 in reqs if R2.get("i", R2.get("cut")) > i and R2["peer"] == peer and R2["tok"] == tok), None)   # unjudged boundary messages count too
        fresh_req_events = set(R2["i"] for R2 in reqs if "i" in R2)
        acks = [(j, res[j]["t"], s) for j in range(i, end) if j == i or evs[j][0] != "recv" or j in fresh_req_events
                for s in res[j]["send"] if s[2] == ACK and s[0] == peer and s[4] == mid]
        # this request itself reuses the token of an earlier, still unacknowledged CON request: its answer may travel in that one's ACK
        tainted = any("i" in R0 and R0["i"] < i and R0["con"] and R0["peer"] == peer and R0["tok"] == tok and
                      not any(s[2] == ACK and s[0] == peer and s[4] == R0["mid"] for j in range(R0["i"], i) for s in res[j]["send"]) for R0 in reqs) or \
                  any("cut" in R0 and R0["cut"] < i and R0["peer"] == peer and R0.get("tok") == tok and
                      not any(s[2] == ACK and s[0] == peer and s[4] == R0["mid"] for j in range(R0["cut"], i) for s in res[j]["send"]) for R0 in reqs)   # unjudged boundary requests count too
        if not R["con"]:
            if acks: return ("C10:non-request-acked", where + " was acknowledged: %r" % (acks,))
        else:
            if len(acks) > 1: return ("C10:con-request-acked-twice", where + " got %d acknowledgements: %r" % (len(acks), acks))
        # the handler's answer
        cancelled = None; jr = None
        if R["k"] is not None:
            for j in range(i, len(evs)):
                if ["cancel", R["k"]] in res[j]["h"]: cancelled = j; break
                if evs[j][0] == "respond" and evs[j][1] == R["k"]: jr = j; break
        answers = []    # (event index, code, effective No-Response, error path?)
        if jr is not None: answers.append((jr, evs[jr][2], evs[jr][3] if evs[jr][3] is not None else R["nr"], False))
        if R["k"] is None:      # answered by the library itself or by the fast resource, within the same event (the harness's site)
            pth, c = R["w"].get("path"), R["w"]["c"]
            if pth not in (0, 1, 3): answers.append((i, 132, R["nr"], True))                   # 4.04 Not Found
            elif c > 7: answers.append((i, 133, R["nr"], True))                              # 4.05 Method Not Allowed
            elif pth == 1: answers.append((i, {1: 69, 5: 69, 4: 66}.get(c, 68), R["nr"], False))   # resource.py default codes
            elif pth == 3: answers.append((i, 160, R["nr"], True))                           # handler raised: 5.00
        for (j, code, nr_eff, errpath) in answers:
            sent = [s for s in res[j]["send"] if s[0] == peer and s[5] == tok and s[3] == code and 64 <= code < 192]
            acked_before = [a for a in acks if a[0] < j or (a[0] == j and a[2][3] == 0 and res[j]["send"].index(a[2]) < (res[j]["send"].index(sent[0]) if sent else -1))]
            if _suppressed(nr_eff, code):
                lost = R["con"] and not acked_before and (o3 is None or o3 > j) and j < end and not any(a[0] == j and a[2][3] == 0 for a in acks)
                ignored = ("C10:no-response-ignored-on-error-response" if errpath else "C10:no-response-ignored",
                           where + " carried No-Response %r but %r was sent" % (nr_eff, sent))
                if any(x[2] == ACK for x in sent): return ignored      # the suppressed response itself travelled in the ACK
                if lost and mc_local(R["local"]):
                    return ("C10:no-response-lost-ack:received-on-multicast", where + " (received on a multicast address): response suppressed, but no empty ACK sent: %r" % (res[j]["send"],))
                if sent:
                    return ("C10:no-response-ignored-on-error-response" if errpath else "C10:no-response-ignored",
                            where + " carried No-Response %r but %r was sent" % (nr_eff, sent))
                if lost: return ("C10:no-response-lost-ack", where + ": response suppressed, but no empty ACK sent either: %r" % (res[j]["send"],))
                continue
            if not (64 <= code < 192) or tainted: continue
            for s in sent:
                if not R["con"] and s[2] != NON: return ("C10:non-request-answered-not-non", where + " answered with %r" % (s,))
                if R["con"] and s[2] == ACK and s[4] != mid: return ("C10:piggyback-wrong-mid", where + " answered with %r" % (s,))
                if R["con"] and s[2] == ACK and res[j]["t"] > R["t0"] + EMPTY_ACK_DELAY:
                    return ("C10:piggyback-after-empty-ack-delay", where + " answered with %r at %d us" % (s, res[j]["t"]))
                if R["con"] and s[2] in (CON, NON) and not acked_before and (o3 is None or o3 > j):
                    return ("C10:piggyback-missed", where + ": response %r sent separately although the request was not acknowledged yet" % (s,))
                if s[2] == RST: return ("C10:response-in-reset", where + " answered with %r" % (s,))
            if R["con"] and not acked_before and (o3 is None or o3 > j) and j < end and not any(s[2] == ACK and s[4] == mid for s in sent):
                return ("C10:piggyback-missed", where + ": answer ready at %d us (request at %d us) but not piggy-backed: %r" % (res[j]["t"], R["t0"], res[j]["send"]))
            # the separate response (after the empty ACK) / the answer to a NON request: exactly one datagram with the request's token and the
            # handler's code, in the step in which the answer is ready — unless a CON of ours to that peer is still unacknowledged (NSTART: it
            # may wait in the backlog, C14) —, under a message ID that no other message of ours to that peer carries
            if (acked_before or not R["con"]) and (o3 is None or o3 > j):
                waiting = set()
                for jj in range(j):
                    for x in res[jj]["send"]:
                        if x[0] == peer and x[2] == CON: waiting.add(x[4])
                    if evs[jj][0] == "recv" and evs[jj][1] == peer and evs[jj][3]["t"] in (ACK, RST): waiting.discard(evs[jj][3]["mid"])
                plain_sent = [x for x in sent if x[2] in (CON, NON)]
                if not plain_sent and not waiting:
                    return ("C10:separate-response-missing", where + ": answer %d ready in event %d, but no CON/NON datagram with token %r and that code was sent: %r" % (code, j, tok, res[j]["send"]))
                if len(plain_sent) > 1: return ("C10:separate-response-duplicated", where + ": %r" % (plain_sent,))
                for x in plain_sent:
                    if x[2] != (NON if (not R["con"] or peer >= 100) else CON):
                        return ("C10:separate-response-wrong-type", where + " answered separately with %r" % (x,))
                    for jj in range(len(evs)):
                        if abs(res[jj]["t"] - res[j]["t"]) >= LIFETIME: continue
                        for y in res[jj]["send"]:
                            if y[0] == peer and y[2] in (CON, NON) and y[4] == x[4] and y[2:] != x[2:]:
                                return ("C10:separate-response-mid-not-fresh", where + ": separate response %r shares its message ID with %r (event %d)" % (x, y, jj))
        if R["con"] and not acks and res[end - 1]["t"] > R["t0"] + EMPTY_ACK_DELAY:
            reused = o3 is not None and o3 < end and res[o3]["t"] <= R["t0"] + EMPTY_ACK_DELAY
            if not reused:
                return ("C10:con-request-never-acked", where + " received at %d us is still unacknowledged at %d us" % (R["t0"], res[end - 1]["t"]))
            R3 = next((x for x in reqs if x.get("i") == o3), None)
            if R3 is not None and R3["con"]:      # O3: messagemanager.py _process_request cancels the pending ACK when the token is reused by a CON request
                return ("C10:con-request-never-acked:token-reused-by-con-request", where + ": the peer reused the token in the CON request of event %d before this one was acknowledged; "
                        "it is still unacknowledged at %d us" % (o3, res[end - 1]["t"]))
            if R3 is not None:
                return ("C10:con-request-never-acked", where + " (token reused by the NON request of event %d) is still unacknowledged at %d us" % (o3, res[end - 1]["t"]))
        for (j, tj, s) in acks:
            if o3 is not None and j >= o3: continue
            if s[3] == 0:
                if evs[j][0] == "fire":
                    if tj < R["t0"] + EMPTY_ACK_DELAY: return ("C10:empty-ack-too-early", where + ": empty ACK at %d us, request at %d us" % (tj, R["t0"]))
                elif not any(a[0] == j and _suppressed(a[2], a[1]) for a in answers):
                    return ("C10:empty-ack-without-cause", where + ": empty ACK in event %d %r" % (j, evs[j]))
            elif s[5] != tok or not (64 <= s[3] < 192):
                return ("C10:piggyback-malformed", where + " acknowledged with %r" % (s,))
    return None

PROPERTY = C10()

if __name__ == "__main__":
    import json
    fw.assert_repo()
    evs = json.loads(sys.argv[1])
    out = run_script(evs)
    for e, r in zip(evs, out): print(e, "\n   ->", r)
    print("oracle:", oracle(evs, out))
