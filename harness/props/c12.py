"""C12 — OSCORE replay protection. Correspondence of Model/C12.v with aiocoap.oscore (under the stubs)."""
import os, sys
import fw
from fw import gz, gbool, glist, gopt

sys.path.append(os.path.join(fw.VERIF, "harness", "stubs"))

SALT = bytes.fromhex("9e7ca92223786340"); KEY = bytes.fromhex("0102030405060708090a0b0c0d0e0f10")
ECHO_OK = 7; ECHO_BAD = 8
def echo_bytes(v): return bytes([v]) * 8

_ctx_cache = {}
def make_ctx(sender, recipient):
    import aiocoap.oscore as o
    class Ctx(o.CanProtect, o.CanUnprotect, o.SecurityContextUtils):
        def post_seqnoincrease(self): pass
    c = Ctx()
    c.alg_aead = o.algorithms[o.DEFAULT_ALGORITHM]; c.hashfun = o.hashfunctions[o.DEFAULT_HASHFUNCTION]
    c.sender_id, c.recipient_id, c.id_context = sender, recipient, None
    c.derive_keys(SALT, KEY)
    c.sender_sequence_number = 0
    return c


class C12(fw.Property):
    id = "C12"
    coq_props = "Props/C12.v"
    gen_jobs = ["oscore_replay"]
    model_imports = ["Verif.Gen.oscore_replay", "Verif.Model.C12", "Verif.Model.C12Persist"]
    quick_budget = 500
    design_ref = "DESIGN.md section 17"
    technique = "Coq refinement proof (replay window -> seen-set) over code translated from source, induction over all arrival histories; differential correspondence for the unprotect flow"
    level_text = ("Theorems (closed under the global context) over the ReplayWindow code regenerated from oscore.py on every run and over a hand-written model of the "
                  "unprotect request path: at-most-once acceptance over every history, acceptance of fresh numbers, rejection below the window, forgeries never mark, "
                  "uninitialised window requires the process's Echo value. The flow model is tied to the code by running both on the same request histories.")
    level_note = ("Trusted: Coq kernel + vm_compute; translator and Lib/Py.v prelude; the flow model's correspondence (sampled histories, window size 32); AEAD idealised as a boolean; "
                  "crypto/cbor/filelock stubs replace the packages missing in this sandbox. Numbers are limited to jumps <= 2^14 in the correspondence run (Z.shiftr cost), not in the theorems.")
    thorough_budget = 20000
    rule = ("streams: window_ops = random/boundary op lists (is_valid/strike_out, repeats, jumps beyond the window, sizes 1,2,8,32,64) on the real "
            "ReplayWindow vs Gen/oscore_replay (translated from source); unprotect_flow = histories of protected requests (fresh / replayed / out-of-window / "
            "forged / with right, wrong or no Echo; window initialised or not; echo_recovery set or not) through the real CanUnprotect.unprotect vs "
            "Model/C12.unprotect_request; mixed_flow = histories of protected requests AND responses (answers to requests the context itself sent, with or without an "
            "own Partial IV, authentic or forged) through the real unprotect vs Model/C12.prun, comparing per message the outcome and the can_reuse_nonce flag handed on. Non-trivial = history contains at least one accepted and one rejected number; distinct by full input.")
    trusted_base = ["translator translate/py2v.py + Lib/Py.v prelude (validated by the window_ops stream on every run)",
                    "hand-written Model/C12.v flow model (validated by the unprotect_flow stream)",
                    "harness stubs for cbor2/cryptography(AES-CCM, HKDF)/filelock (validated against RFC 8613 vectors via tests/test_oscore.py)"]
    assumptions = ["AEAD idealised: model input 'authentic' = whether the stub AES-CCM verifies",
                   "a response that verifies under the RequestIdentifiers of a request this process sent is fresh (basis of the response-initialised window, notes/C12.md O1)", "the real cryptography wheel is never exercised in this sandbox"]

    def gen_cases(self, tier, rng, n):
        sizes = [1, 2, 8, 32, 64]
        for k in range(n):
            if k % 3 == 2:
                init = rng.random() < 0.45
                have_echo = rng.random() < 0.75
                msgs = []; hi = 0
                for _ in range(rng.randint(1, 14)):
                    if rng.random() < 0.3:
                        own = None if rng.random() < 0.4 else rng.randint(0, 60)
                        msgs.append({"resp": own, "authentic": rng.random() < 0.75})
                        continue
                    kind = rng.random()
                    if kind < 0.3: num = hi + 1
                    elif kind < 0.55: num = rng.randint(0, hi + 2)
                    elif kind < 0.7: num = hi + rng.choice([31, 32, 33, 40, 70])
                    else: num = max(0, hi - rng.choice([1, 2, 30, 31, 32, 33, 34]))
                    hi = max(hi, num)
                    msgs.append({"seqno": num, "authentic": rng.random() < 0.75, "echo": rng.choice([None, None, ECHO_OK, ECHO_OK, ECHO_BAD])})
                yield "mixed_flow", {"initialized": init, "echo_recovery": have_echo, "msgs": msgs}
            elif k % 3 == 0:
                size = rng.choice(sizes); ops = []; hi = 0
                for _ in range(rng.randint(1, 25)):
                    kind = rng.random()
                    if kind < 0.35: num = rng.randint(0, max(hi + 2, 3))
                    elif kind < 0.6: num = hi + 1
                    elif kind < 0.75: num = hi + size + rng.randint(-2, 2)
                    elif kind < 0.85: num = hi + rng.choice([size * 2, size * 3 + 1, 1000, 2 ** 14])
                    else: num = max(0, hi - size + rng.randint(-2, 2))
                    num = max(0, num)
                    op = "strike" if rng.random() < 0.6 else "valid"
                    ops.append([op, num])
                    if op == "strike": hi = max(hi, num)
                yield "window_ops", {"size": size, "ops": ops}
            else:
                init = rng.random() < 0.6
                have_echo = rng.random() < 0.7
                reqs = []; hi = 0
                for _ in range(rng.randint(1, 14)):
                    kind = rng.random()
                    if kind < 0.3: num = hi + 1
                    elif kind < 0.55: num = rng.randint(0, hi + 2)
                    elif kind < 0.7: num = hi + rng.choice([31, 32, 33, 40, 70])
                    else: num = max(0, hi - rng.choice([30, 31, 32, 33, 34]))
                    hi = max(hi, num)
                    reqs.append({"seqno": num, "authentic": rng.random() < 0.8, "echo": rng.choice([None, None, ECHO_OK, ECHO_OK, ECHO_BAD])})
                # round 7: in 40 % of the flows the server is stopped cleanly and reloaded before request `reload_at`
                # (ReplayWindow.persist -> JSON -> new ReplayWindow.initialize_from_persisted, as _destroy/_load do)
                reload_at = rng.randint(0, len(reqs)) if rng.random() < 0.4 else None
                yield "unprotect_flow", {"initialized": init, "echo_recovery": have_echo, "reqs": reqs, "reload_at": reload_at}
        if tier == "thorough":
            # exhaustive small scope: all op sequences of length <= 4 over 0..5 for window sizes 1, 2 (validation of the tie, not a proof)
            import itertools
            for size in (1, 2):
                for L in range(1, 5):
                    for nums in itertools.product(range(0, 6), repeat=L):
                        yield "window_ops", {"size": size, "ops": [["strike", x] for x in nums] + [["valid", x] for x in range(0, 7)]}

    # ---------------------------------------------------------------- implementation
    def impl(self, stream, inp):
        import aiocoap, aiocoap.oscore as o
        if stream == "window_ops":
            w = o.ReplayWindow(inp["size"], lambda: None); w.initialize_empty(); out = []
            for op, num in inp["ops"]:
                try:
                    if op == "valid": out.append(bool(w.is_valid(num)))
                    else: w.strike_out(num); out.append("done")
                except Exception as e: out.append("exn:" + type(e).__name__)
            return {"results": out, "index": w._index, "bitfield": w._bitfield}
        if stream == "mixed_flow": return self._impl_mixed(inp)
        client = make_ctx(b"\x01", b"\x02"); server = make_ctx(b"\x02", b"\x01")
        server.recipient_replay_window = o.ReplayWindow(32, lambda: None)
        if inp["initialized"]: server.recipient_replay_window.initialize_empty()
        server.echo_recovery = echo_bytes(ECHO_OK) if inp["echo_recovery"] else None
        out = []
        for i, r in enumerate(inp["reqs"] + [None]):
            if inp.get("reload_at") == i:
                import json
                persisted = json.loads(json.dumps(server.recipient_replay_window.persist()))
                w2 = o.ReplayWindow(32, lambda: None); w2.initialize_from_persisted(persisted)
                server.recipient_replay_window = w2
            if r is None: break
            m = aiocoap.Message(code=aiocoap.GET, uri="coap://example.com/x")
            if r["echo"] is not None: m.opt.echo = echo_bytes(r["echo"])
            client.sender_sequence_number = r["seqno"]
            prot, _ = client.protect(m)
            if not r["authentic"]:
                prot.payload = prot.payload[:-1] + bytes([prot.payload[-1] ^ 1])
            wire = aiocoap.Message.decode(prot.encode() if False else self._encode(prot), "peer")
            try:
                server.unprotect(wire); out.append("Accept")
            except o.ReplayErrorWithEcho: out.append("RejectEcho")
            except o.ReplayError: out.append("RejectReplay")
            except o.ProtectionInvalid: out.append("RejectInvalid")
            except Exception as e: out.append("exn:" + type(e).__name__)
        w = server.recipient_replay_window
        return {"outcomes": out, "window": [w._index, w._bitfield] if w.is_initialized() else None}
    def _impl_mixed(self, inp):
        """requests AND responses through the real CanUnprotect.unprotect of `server`; for every request the
        can_reuse_nonce flag of the RequestIdentifiers that unprotect hands on (return value / ReplayErrorWithEcho)"""
        import aiocoap, aiocoap.oscore as o
        client = make_ctx(b"\x01", b"\x02"); server = make_ctx(b"\x02", b"\x01")
        server.recipient_replay_window = o.ReplayWindow(32, lambda: None)
        client.recipient_replay_window = o.ReplayWindow(32, lambda: None); client.recipient_replay_window.initialize_empty()
        if inp["initialized"]: server.recipient_replay_window.initialize_empty()
        server.echo_recovery = echo_bytes(ECHO_OK) if inp["echo_recovery"] else None
        server.sender_sequence_number = 1000
        out = []
        def wire_of(prot): return aiocoap.Message.decode(self._encode(prot), "peer")
        for r in inp["msgs"]:
            try:
                if "resp" in r:
                    # `server` sends a request of its own, the peer answers it (with or without an own Partial IV)
                    q = aiocoap.Message(code=aiocoap.GET, uri="coap://example.com/y")
                    qprot, rid = server.protect(q)
                    _, rid_peer = client.unprotect(wire_of(qprot))
                    a = aiocoap.Message(code=aiocoap.CONTENT, payload=b"r")
                    if r["resp"] is not None:
                        rid_peer.can_reuse_nonce = False; client.sender_sequence_number = r["resp"]
                    aprot, _ = client.protect(a, rid_peer)
                    if not r["authentic"]: aprot.payload = aprot.payload[:-1] + bytes([aprot.payload[-1] ^ 1])
                    w = wire_of(aprot)
                    has_piv = o.COSE_PIV in server._extract_encrypted0(w)[2]
                    if has_piv != (r["resp"] is not None): out.append(["harness", "piv-mismatch"]); continue
                    try: server.unprotect(w, rid); out.append(["resp", True])
                    except o.ProtectionInvalid: out.append(["resp", False])
                    continue
                m = aiocoap.Message(code=aiocoap.GET, uri="coap://example.com/x")
                if r["echo"] is not None: m.opt.echo = echo_bytes(r["echo"])
                client.sender_sequence_number = r["seqno"]
                prot, _ = client.protect(m)
                if not r["authentic"]: prot.payload = prot.payload[:-1] + bytes([prot.payload[-1] ^ 1])
                try:
                    _, rid = server.unprotect(wire_of(prot)); out.append(["Accept", bool(rid.can_reuse_nonce)])
                except o.ReplayErrorWithEcho as e: out.append(["RejectEcho", bool(e.request_id.can_reuse_nonce)])
                except o.ReplayError: out.append(["RejectReplay", False])
                except o.ProtectionInvalid: out.append(["RejectInvalid", False])
            except Exception as e: out.append(["exn:" + type(e).__name__, False])
        w = server.recipient_replay_window
        return {"outcomes": out, "window": [w._index, w._bitfield] if w.is_initialized() else None}
    def _encode(self, m):
        import aiocoap
        m.mtype = aiocoap.CON; m.mid = 1; m.token = b""
        return m.encode()

    # ---------------------------------------------------------------- model
    def model(self, stream, inp):
        if stream == "window_ops":
            ops = glist([("IsValid %s" if op == "valid" else "StrikeOut %s") % gz(n) for op, n in inp["ops"]])
            return "let r := wrun (initialize_empty %s) %s in (snd r, rw_index (fst r), rw_bitfield (fst r))" % (gz(inp["size"]), ops)
        if stream == "mixed_flow":
            ms = glist([("PResp %s %s" % (gopt(r["resp"], gz), gbool(r["authentic"]))) if "resp" in r else
                        "PReq {| seqno := %s; authentic := %s; echo := %s |}" % (gz(r["seqno"]), gbool(r["authentic"]), gopt(r["echo"], gz)) for r in inp["msgs"]])
            c = "{| size := 32; window := %s; echo_recovery := %s |}" % ("Some (initialize_empty 32)" if inp["initialized"] else "None", "Some %s" % gz(ECHO_OK) if inp["echo_recovery"] else "None")
            return "let r := prun %s %s in (snd r, match window (fst r) with Some w => Some (rw_index w, rw_bitfield w) | None => None end)" % (c, ms)
        reqs = glist(["{| seqno := %s; authentic := %s; echo := %s |}" % (gz(r["seqno"]), gbool(r["authentic"]), gopt(r["echo"], gz)) for r in inp["reqs"]])
        c = "{| size := 32; window := %s; echo_recovery := %s |}" % ("Some (initialize_empty 32)" if inp["initialized"] else "None", "Some %s" % gz(ECHO_OK) if inp["echo_recovery"] else "None")
        if inp.get("reload_at") is not None:
            return "let r := run_reload %s %d%%nat %s in (snd r, match window (fst r) with Some w => Some (rw_index w, rw_bitfield w) | None => None end)" % (c, inp["reload_at"], reqs)
        return "let r := run %s %s in (snd r, match window (fst r) with Some w => Some (rw_index w, rw_bitfield w) | None => None end)" % (c, reqs)
    def decode(self, stream, inp, p):
        p = fw.plain(p)
        if stream == "window_ops":
            res, idx, bf = p
            def one(x):
                if x == "RDone": return "done"
                if x["c"] == "RBool": return x["a"][0]
                return "exn:" + x["a"][0]
            return {"results": [one(x) for x in res], "index": idx, "bitfield": bf}
        outs, win = p
        if stream == "mixed_flow":
            def po(x):
                if x["c"] == "OResp": return ["resp", x["a"][0]]
                o_, reuse = x["a"]
                return [o_ if isinstance(o_, str) else "exn:" + str(o_["a"][0]), reuse]
            return {"outcomes": [po(x) for x in outs], "window": None if win == "None" else list(win["a"][0])}
        def oc(x): return x if isinstance(x, str) else "exn:" + str(x["a"][0])
        return {"outcomes": [oc(x) for x in outs], "window": None if win == "None" else list(win["a"][0])}

    # ---------------------------------------------------------------- oracle: the property, stated on the implementation's behaviour
    def oracle(self, stream, inp, res):
        if "harness_exception" in res: return ("C12:crash:" + res["where"], "implementation raised %s" % res["harness_exception"])
        if stream == "window_ops":
            struck = set(); hi = -1; size = inp["size"]
            for (op, num), r in zip(inp["ops"], res["results"]):
                if isinstance(r, str) and r.startswith("exn:") and r != "exn:ValueError":
                    return ("C12:window-exception", "%s from ReplayWindow on %s %d" % (r, op, num))
                if op == "valid":
                    if num in struck and r is True: return ("C12:accepted-twice", "number %d valid after strike-out" % num)
                    if num > hi and r is not True: return ("C12:fresh-rejected", "number %d above everything seen (%d) is not valid" % (num, hi))
                    if num <= hi - size and r is True: return ("C12:out-of-window-accepted", "number %d fell out of window (max %d, size %d) but is valid" % (num, hi, size))
                else:
                    if r == "done":
                        if num in struck: return ("C12:accepted-twice", "number %d struck out twice" % num)
                        struck.add(num); hi = max(hi, num)
                    elif num > hi: return ("C12:fresh-rejected", "strike_out(%d) above everything seen (%d) raised" % (num, hi))
            return None
        if stream == "mixed_flow": return self._oracle_mixed(inp, res)
        accepted = set(); hi = None; initialized = inp["initialized"]
        for r, o in zip(inp["reqs"], res["outcomes"]):
            if o.startswith("exn:"): return ("C12:flow-exception", "%s escaped unprotect for %r" % (o, r))
            if o == "Accept":
                if not r["authentic"]: return ("C12:forgery-accepted", "forged request %d accepted" % r["seqno"])
                if r["seqno"] in accepted: return ("C12:accepted-twice", "sequence number %d accepted twice" % r["seqno"])
                if initialized and hi is not None and r["seqno"] <= hi - 32:
                    return ("C12:out-of-window-accepted", "request %d accepted although out of window (highest accepted %d)" % (r["seqno"], hi))
                if not initialized:
                    if not (inp["echo_recovery"] and r["echo"] == ECHO_OK):
                        return ("C12:uninitialised-accept", "request %d accepted while window uninitialised without fresh Echo" % r["seqno"])
                    initialized = True; accepted |= set(range(0, r["seqno"]))
                accepted.add(r["seqno"]); hi = r["seqno"] if hi is None else max(hi, r["seqno"])
            else:
                if initialized and r["authentic"] and (hi is None or r["seqno"] > hi):
                    return ("C12:fresh-rejected", "authentic request %d above everything seen was rejected (%s)" % (r["seqno"], o))
                if initialized and r["authentic"] and r["seqno"] not in accepted and hi is not None and r["seqno"] > hi - 32:
                    return ("C12:genuine-blocked", "authentic request %d, never accepted before and inside the window (highest accepted %d), was rejected (%s)" % (r["seqno"], hi, o))
        return None
    def _oracle_mixed(self, inp, res):
        """the property on a history of requests and responses; independent bookkeeping of what a correct replay
        protection must have accepted (set `accepted`, highest number `hi`; window size 32)"""
        accepted = set(); hi = None; initialized = inp["initialized"]; reuse_given = set()
        for r, (o, flag) in zip(inp["msgs"], res["outcomes"]):
            if o == "harness": return ("C12:crash:harness", "harness could not build the response it wanted: %r" % (flag,))
            if o.startswith("exn:"): return ("C12:flow-exception", "%s escaped unprotect for %r" % (o, r))
            if "resp" in r:
                if flag is not r["authentic"]:
                    return ("C12:response-" + ("forgery-accepted" if flag else "genuine-rejected"), "response %r: unprotect %s" % (r, "succeeded" if flag else "failed"))
                if flag and not initialized and inp["echo_recovery"] and r["resp"] is not None:
                    initialized = True; accepted |= set(range(0, r["resp"] + 1)); hi = r["resp"]
                continue
            n = r["seqno"]
            if flag and o != "Accept": return ("C12:reusable-nonce-on-reject", "request %d: %s hands on can_reuse_nonce=True" % (n, o))
            if o == "Accept":
                if not r["authentic"]: return ("C12:forgery-accepted", "forged request %d accepted" % n)
                if n in accepted: return ("C12:accepted-twice", "sequence number %d accepted twice" % n)
                if initialized and hi is not None and n <= hi - 32:
                    return ("C12:out-of-window-accepted", "request %d accepted although out of window (highest %d)" % (n, hi))
                if not initialized:
                    if not (inp["echo_recovery"] and r["echo"] == ECHO_OK):
                        return ("C12:uninitialised-accept", "request %d accepted while window uninitialised without fresh Echo" % n)
                    if flag: return ("C12:reusable-nonce-after-echo-recovery", "request %d accepted through Echo recovery hands on can_reuse_nonce=True" % n)
                    initialized = True; accepted |= set(range(0, n))
                elif not flag:
                    return ("C12:fresh-without-reuse", "request %d passed the replay check but can_reuse_nonce is False" % n)
                if flag:
                    if n in reuse_given: return ("C12:nonce-reusable-twice", "nonce of sequence number %d handed on as reusable twice" % n)
                    reuse_given.add(n)
                accepted.add(n); hi = n if hi is None else max(hi, n)
            else:
                if initialized and r["authentic"] and (hi is None or n > hi):
                    return ("C12:fresh-rejected", "authentic request %d above everything seen was rejected (%s)" % (n, o))
                if initialized and r["authentic"] and n not in accepted and hi is not None and n > hi - 32:
                    return ("C12:genuine-blocked", "authentic request %d, never accepted before and inside the window (highest %d), was rejected (%s)" % (n, hi, o))
        return None
    def nontrivial(self, stream, inp, res):
        if stream == "window_ops":
            rs = res.get("results", [])
            ok = any(x == "done" for x in rs) and any(x == "exn:ValueError" or x is False for x in rs)
        elif stream == "mixed_flow":
            os_ = [x[0] for x in res.get("outcomes", [])]; ok = "Accept" in os_ and any(x not in ("Accept", "resp") for x in os_)
        else:
            os_ = res.get("outcomes", []); ok = "Accept" in os_ and any(x != "Accept" for x in os_)
        return fw.jdump([stream, inp]) if ok else None

PROPERTY = C12()
