"""C02 — a response reaches exactly the request it answers; every request completes once.

Correspondence of Model/C02.v (token manager + client pipe/request machine + client side of the message manager)
with the real Context / TokenManager / MessageManager / Pipe / Request objects driven in virtual time over a fake
message interface, using the REAL udp6 endpoint address class (its equality is one of the anchors)."""
import os, sys, json, socket, logging, types
import fw
from fw import gz, gbool, glist, gopt, gbytes

CON, NON, ACK, RST = 0, 1, 2, 3
MC_BASE = 100            # remote ids >= 100 are multicast group addresses (Model.C02.is_multicast)

# ------------------------------------------------------------------------------------------------ driving the implementation
class _Iface:            # what UDP6EndpointAddress keeps a weak reference to
    def _local_port(self): return 5683

def _host(r): return ("ff02::%x" % (r - MC_BASE + 0xfd)) if r >= MC_BASE else ("fe80::%x" % (r + 1))

class Driver:
    """One event script against one fresh Context. Every call into aiocoap is followed by draining the ready queue."""
    def __init__(self, inp):
        import aiocoap, aiocoap.protocol as proto, aiocoap.messagemanager as mm, aiocoap.tokenmanager as tm
        from aiocoap.transports.udp6 import UDP6EndpointAddress, _in6_pktinfo
        import simloop, simnet
        self.aiocoap = aiocoap; self.A = UDP6EndpointAddress
        logging.getLogger("coap").setLevel(logging.CRITICAL + 1)
        self.loop = simloop.VLoop()
        simnet.patch_random(uniform_value=inp["t0"] / 1e6, mid0=inp["mid0"], token0=inp["token0"] % 65536)
        proto.time = types.SimpleNamespace(time=lambda: 0.0)      # OBSERVATION_RESET_TIME clause never fires (C07's business)
        self.iface = _Iface()
        self.pk_uni = _in6_pktinfo.pack(socket.inet_pton(socket.AF_INET6, "fe80::ffff"), 0)
        self.pk_mc = _in6_pktinfo.pack(socket.inet_pton(socket.AF_INET6, "ff02::fd"), 0)
        drv = self
        class MI(simnet.FakeMI):
            async def recognize_remote(self, r): return isinstance(r, UDP6EndpointAddress)
            async def determine_remote(self, m): return None
        with self.loop.enter():
            self.ctx = proto.Context(loop=self.loop, serversite=None)
            self.tman = tm.TokenManager(self.ctx); self.mman = mm.MessageManager(self.tman); self.mi = MI(self.loop)
            self.mman.message_interface = self.mi; self.tman.token_interface = self.mman; self.ctx.request_interfaces.append(self.tman)
        self.tman._token = inp["token0"]      # values above 65535 (wrap-around region) are set directly
        self.reqs = {}; self.out = []; self.nexc = 0
    # -- helpers
    def addr(self, r, incoming=False, mcl=False):
        return self.A((_host(r), 5683, 0, 0), self.iface, pktinfo=(self.pk_mc if mcl else self.pk_uni) if incoming else None)
    def rid_of(self, remote):
        h = remote.sockaddr[0]
        for r in list(range(0, 8)) + list(range(MC_BASE, MC_BASE + 4)):
            if _host(r) == h: return r
        return -1
    def errname(self, e):
        return type(e).__name__ if not isinstance(e, type) else e.__name__
    def guarded(self, f, *a):
        try:
            with self.loop.enter(): f(*a)
            self.loop.drain()
        except BaseException as e:
            if isinstance(e, (KeyboardInterrupt, SystemExit)): raise
            self.out.append(["raised", type(e).__name__])
            try: self.loop.drain()
            except BaseException as e2: self.out.append(["raised", type(e2).__name__])
    def flush(self):
        A = self.aiocoap
        for (t, remote, raw) in self.mi.take():
            m = A.Message.decode(raw, remote)
            self.out.insert(len([x for x in self.out if x[0] == "send"]),
                            ["send", self.rid_of(remote), int(m.mtype), int(m.code), m.mid, list(m.token), m.opt.observe])
        for c in self.loop.exceptions[self.nexc:]:
            e = c.get("exception"); self.out.append(["loopexc", type(e).__name__ if e is not None else str(c.get("message"))[:40]])
        self.nexc = len(self.loop.exceptions)
        out, self.out = self.out, []
        return out
    # -- events
    def ev_req(self, q, r, mtype, obs):
        A = self.aiocoap
        m = A.Message(code=A.GET)
        if mtype is not None: m.mtype = A.numbers.types.Type(mtype)
        if obs: m.opt.observe = 0
        m.remote = self.addr(r)
        box = {}
        def go():
            req = self.ctx.request(m, handle_blockwise=False); box["req"] = req
            self.reqs[q] = req
            def done(f, q=q):
                if f.cancelled(): self.out.append(["cancelled", q]); return
                e = f.exception()
                if e is not None: self.out.append(["exception", q, self.errname(e), isinstance(e, A.error.Error)])
                else:
                    resp = f.result()
                    self.out.append(["result", q, int.from_bytes(resp.payload, "big"), list(resp.token), self.rid_of(resp.remote)])
            req.response.add_done_callback(done)
            if req.observation is not None:
                req.observation.register_callback(lambda resp, q=q: self.out.append(["notify", q, int.from_bytes(resp.payload, "big"), list(resp.token), self.rid_of(resp.remote)]), _suppress_deprecation=True)
                req.observation.register_errback(lambda e, q=q: self.out.append(["obserr", q, self.errname(e)]), _suppress_deprecation=True)
        self.guarded(go)
        tok = m.token
        self.out.append(["token", q, list(tok) if tok is not None else None])
    def ev_recv(self, r, mcl, mtype, code, mid, token, observe, rid):
        A = self.aiocoap
        m = A.Message(mtype=A.numbers.types.Type(mtype), code=A.numbers.codes.Code(code), mid=mid, token=bytes(token))
        if code != 0: m.payload = rid.to_bytes(2, "big")
        if observe is not None: m.opt.observe = observe
        raw = m.encode()
        def go():
            msg = A.Message.decode(raw, self.addr(r, incoming=True, mcl=mcl))
            self.mman.dispatch_message(msg)
        self.guarded(go)
    def ev_fire(self):
        try:
            self.loop.fire_next()
        except BaseException as e:
            if isinstance(e, (KeyboardInterrupt, SystemExit)): raise
            self.out.append(["raised", type(e).__name__])
    def ev_adv(self, us):
        d = self.loop.next_due()
        if d is None or d > self.loop.now_us() + us: self.loop.advance(us)
    def ev_err(self, r, kind):
        A = self.aiocoap
        exc = {"os": OSError(111, "Connection refused"), "net": A.error.NetworkError("unreachable"),
               "timeout": A.error.TimeoutError("t"), "resolution": A.error.ResolutionError("r")}[kind]
        self.guarded(self.mman.dispatch_error, exc, self.addr(r, incoming=True))
    def ev_cancel(self, q):
        if q in self.reqs: self.guarded(self.reqs[q].response.cancel)
    def ev_obscancel(self, q):
        req = self.reqs.get(q)
        # the application cancels an observation only after the first response, and only once (ClientObservation.cancel asserts that)
        if req is not None and req.observation is not None and req.response.done() and not req.response.cancelled() \
                and req.response.exception() is None and not req.observation.cancelled:
            self.guarded(req.observation.cancel)
    def ev_shutdown(self):
        if self.tman.outgoing_requests is None: return
        def go(): self.sd = self.loop.create_task(self.ctx.shutdown())
        self.guarded(go)
        if self.sd.done() and self.sd.exception() is not None: self.out.append(["raised", type(self.sd.exception()).__name__])
    def run(self, events):
        trace = []
        for ev in events:
            k = ev[0]
            if k == "req": self.ev_req(*ev[1:])
            elif k == "recv":
                if self.tman.outgoing_requests is None: pass      # transport is closed after shutdown: nothing is dispatched any more
                else: self.ev_recv(*ev[1:])
            elif k == "fire": self.ev_fire()
            elif k == "adv": self.ev_adv(ev[1])
            elif k == "err": self.ev_err(ev[1], ev[2])
            elif k == "cancel": self.ev_cancel(ev[1])
            elif k == "obscancel": self.ev_obscancel(ev[1])
            elif k == "shutdown": self.ev_shutdown()
            else: raise ValueError("unknown event %r" % (ev,))
            trace.append(self.flush())
        og = self.tman.outgoing_requests
        ex = self.mman._active_exchanges
        final = {
            "outgoing": None if og is None else [[list(t), None if rm is None else self.rid_of(rm)] for (t, rm) in og.keys()],
            "exchanges": None if ex is None else sorted([self.rid_of(rm), mid] for (rm, mid) in ex.keys()),
            "backlogs": sorted([self.rid_of(rm), [m.mid for (m, _) in bl]] for rm, bl in self.mman._backlogs.items()),
            "now": self.loop.now_us(),
        }
        return {"trace": trace, "final": final}


class C02(fw.Property):
    id = "C02"
    coq_props = "Props/C02.v"
    gen_jobs = []
    model_imports = ["Verif.Model.C02"]
    quick_budget = 300
    thorough_budget = 12000
    design_ref = "DESIGN.md section 7"

    def gen_cases(self, tier, rng, n):
        return []
    def impl(self, stream, inp):
        return Driver(inp).run(inp["events"])

PROPERTY = C02()
