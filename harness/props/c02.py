"""C02 — a response reaches exactly the request it answers; every request completes once.

Correspondence of Model/C02.v (token manager + client pipe/request machine + client side of the message manager)
with the real Context / TokenManager / MessageManager / Pipe / Request objects driven in virtual time over a fake
message interface, using the REAL udp6 endpoint address class (its equality is one of the anchors)."""
import os, sys, json, socket, logging, types, warnings, errno
import fw
from fw import gz, gbool, glist, gopt, gbytes

CON, NON, ACK, RST = 0, 1, 2, 3
MC_BASE = 100            # remote ids >= 100 are multicast group addresses (Model.C02.is_multicast)

# ------------------------------------------------------------------------------------------------ driving the implementation
class _Iface:            # what UDP6EndpointAddress keeps a weak reference to
    def _local_port(self): return 5683

# Endpoint ids (= Model.C02 remotes) -> REAL udp6 socket addresses. Ids 0..3: four hosts on port 5683 (id 2 is v4-mapped); ids 8..11: the SAME
# hosts on port 5684 -- different endpoints (udp6.py:149-153 compares sockaddr[:-1] = host, port, flowinfo); ids >= 100: multicast groups.
# An event may name an endpoint as id + ALIAS: the same host and port with scope id 7 -- the SAME endpoint for the library (scope id is not
# compared nor hashed), so the model sees the plain id.
ALIAS = 1000
SIB = 8
_HOSTS = ["fe80::1", "fe80::2", "::ffff:10.0.0.3", "fe80::4"]
def norm_event(e):
    """the event with its endpoint named by the plain endpoint id (what the model and the oracle reason about)"""
    i = {"req": 2, "recv": 1, "err": 1, "refuse": 1}.get(e[0])
    if i is None: return e
    e = list(e); e[i] = ep(e[i]); return e
def ep(e): return e - ALIAS if e >= ALIAS else e                 # endpoint id the model / the oracle reason about
def _sockaddr(e):
    r = ep(e); scope = 7 if e >= ALIAS else 0
    if r >= MC_BASE: return ("ff02::%x" % (r - MC_BASE + 0xfd), 5683, 0, scope)
    if r >= SIB: return (_HOSTS[r - SIB], 5684, 0, scope)
    return (_HOSTS[r], 5683, 0, scope)
_BY_HOSTPORT = {_sockaddr(r)[:2]: r for r in list(range(0, 4)) + list(range(SIB, SIB + 4)) + list(range(MC_BASE, MC_BASE + 4))}

_RANK = {"send": 0, "token": 1, "result": 2, "exception": 2, "cancelled": 2, "notify": 3, "obserr": 3, "raised": 4, "loopexc": 5, "crash": 6}
def canon(items):
    """outputs of one event: datagrams first, then per category in order of occurrence (future callbacks run deferred,
    observation callbacks immediately, so the interleaving across categories is not comparable)"""
    return sorted(items, key=lambda x: _RANK[x[0]])

class Driver:
    """One event script against one fresh Context. Every call into aiocoap is followed by draining the ready queue."""
    def __init__(self, inp):
        import aiocoap, aiocoap.protocol as proto, aiocoap.messagemanager as mm, aiocoap.tokenmanager as tm
        from aiocoap.transports.udp6 import UDP6EndpointAddress, _in6_pktinfo
        import simloop, simnet
        self.aiocoap = aiocoap; self.A = UDP6EndpointAddress
        logging.getLogger("coap").setLevel(logging.CRITICAL + 1); warnings.simplefilter("ignore")
        self.loop = simloop.VLoop()
        simnet.patch_random(uniform_value=inp["t0"] / 1e6, mid0=inp["mid0"], token0=inp["token0"] % 65536)
        proto.time = types.SimpleNamespace(time=lambda: 0.0)      # OBSERVATION_RESET_TIME clause never fires (C07's business)
        self.iface = _Iface()
        self.pk_uni = _in6_pktinfo.pack(socket.inet_pton(socket.AF_INET6, "fe80::ffff"), 0)
        self.pk_mc = _in6_pktinfo.pack(socket.inet_pton(socket.AF_INET6, "ff02::fd"), 0)
        drv = self
        class MI(simnet.FakeMI):
            def send(self, m):
                # a transport that refuses the datagram synchronously (udp6: sendmsg raises OSError -> error_received ->
                # MessageManager.dispatch_error(exc, remote), all from inside send(); nothing goes onto the wire)
                if drv.rid_of(m.remote) in drv.refusing:
                    drv.mman.dispatch_error(OSError(errno.ENETUNREACH, "Network is unreachable"), m.remote); return
                simnet.FakeMI.send(self, m)
            async def recognize_remote(self, r): return isinstance(r, UDP6EndpointAddress)
            async def determine_remote(self, m): return None
        with self.loop.enter():
            self.ctx = proto.Context(loop=self.loop, serversite=None)
            self.tman = tm.TokenManager(self.ctx); self.mman = mm.MessageManager(self.tman); self.mi = MI(self.loop)
            self.mman.message_interface = self.mi; self.tman.token_interface = self.mman; self.ctx.request_interfaces.append(self.tman)
        self.tman._token = inp["token0"]      # values above 65535 (wrap-around region) are set directly
        self.last_token = None
        orig_next_token = self.tman.next_token
        def recording_next_token():
            t = orig_next_token(); self.last_token = t; return t
        self.tman.next_token = recording_next_token      # observe token assignment from outside
        self.reqs = {}; self.out = []; self.nexc = 0; self.refusing = set()
    # -- helpers
    def addr(self, r, incoming=False, mcl=False):
        return self.A(_sockaddr(r), self.iface, pktinfo=(self.pk_mc if mcl else self.pk_uni) if incoming else None)
    def rid_of(self, remote):
        """full endpoint (host AND port) of an address object the library hands out; the scope id is not part of the endpoint"""
        return _BY_HOSTPORT.get((remote.sockaddr[0], remote.sockaddr[1]), -1)
    def errname(self, e):
        """class name; classes from outside the aiocoap package carry their module (builtins.TimeoutError is not aiocoap.error.TimeoutError)"""
        cls = e if isinstance(e, type) else type(e)
        return cls.__name__ if (cls.__module__ or "").startswith("aiocoap") else "%s.%s" % (cls.__module__, cls.__name__)
    def guarded(self, f, *a):
        try:
            with self.loop.enter(): f(*a)
            self.loop.drain()
        except BaseException as e:
            if isinstance(e, (KeyboardInterrupt, SystemExit)): raise
            self.out.append(["raised", type(e).__name__])
            try: self.loop.drain()
            except BaseException as e2: self.out.append(["raised", type(e2).__name__])
    def flush(self):
        A = self.aiocoap
        for (t, remote, raw) in self.mi.take():
            m = A.Message.decode(raw, remote)
            self.out.append(["send", self.rid_of(remote), int(m.mtype), int(m.code), m.mid, list(m.token), m.opt.observe])
        for c in self.loop.exceptions[self.nexc:]:
            e = c.get("exception"); self.out.append(["loopexc", type(e).__name__ if e is not None else str(c.get("message"))[:40]])
        self.nexc = len(self.loop.exceptions)
        out, self.out = self.out, []
        return canon(out)
    # -- events
    def ev_req(self, q, r, mtype, obs):
        A = self.aiocoap
        m = A.Message(code=A.GET)
        if mtype is not None: m.mtype = A.numbers.types.Type(mtype)
        if obs: m.opt.observe = 0
        m.remote = self.addr(r)
        box = {}
        def go():
            req = self.ctx.request(m, handle_blockwise=False); box["req"] = req
            self.reqs[q] = req
            def done(f, q=q):
                if f.cancelled(): self.out.append(["cancelled", q]); return
                e = f.exception()
                if e is not None: self.out.append(["exception", q, self.errname(e)])
                else:
                    resp = f.result()
                    self.out.append(["result", q, int.from_bytes(resp.payload, "big"), list(resp.token), self.rid_of(resp.remote)])
            req.response.add_done_callback(done)
            if req.observation is not None:
                req.observation.register_callback(lambda resp, q=q: self.out.append(["notify", q, int.from_bytes(resp.payload, "big"), list(resp.token), self.rid_of(resp.remote)]), _suppress_deprecation=True)
                req.observation.register_errback(lambda e, q=q: self.out.append(["obserr", q, self.errname(e)]), _suppress_deprecation=True)
        self.last_token = None
        self.guarded(go)
        if self.last_token is not None: self.out.append(["token", q, list(self.last_token)])      # next_token was called for this request
    def ev_recv(self, r, mcl, mtype, code, mid, token, observe, rid):
        A = self.aiocoap
        m = A.Message(mtype=A.numbers.types.Type(mtype), code=A.numbers.codes.Code(code), mid=mid, token=bytes(token))
        if code != 0: m.payload = rid.to_bytes(2, "big")
        if observe is not None: m.opt.observe = observe
        raw = m.encode()
        def go():
            msg = A.Message.decode(raw, self.addr(r, incoming=True, mcl=mcl))
            self.mman.dispatch_message(msg)
        self.guarded(go)
    def ev_fire(self):
        try:
            self.loop.fire_next()
        except BaseException as e:
            if isinstance(e, (KeyboardInterrupt, SystemExit)): raise
            self.out.append(["raised", type(e).__name__])
    def ev_adv(self, us):
        d = self.loop.next_due()
        if d is None or d > self.loop.now_us() + us: self.loop.advance(us)
    def ev_err(self, r, kind):
        A = self.aiocoap
        exc = {"os": OSError(111, "Connection refused"), "net": A.error.NetworkError("unreachable"),
               "cre": A.error.ConRetransmitsExceeded("t"), "msg": A.error.MessageError("m")}[kind]
        self.guarded(self.mman.dispatch_error, exc, self.addr(r, incoming=True))
    def ev_cancel(self, q):
        if q in self.reqs: self.guarded(self.reqs[q].response.cancel)
    def ev_obscancel(self, q):
        req = self.reqs.get(q)
        # the application cancels an observation only after the first response, and only once (ClientObservation.cancel asserts that)
        if req is not None and req.observation is not None and req.response.done() and not req.response.cancelled() \
                and req.response.exception() is None and not req.observation.cancelled:
            self.guarded(req.observation.cancel)
    def ev_shutdown(self):
        if self.tman.outgoing_requests is None: return
        def go(): self.sd = self.loop.create_task(self.ctx.shutdown())
        self.guarded(go)
        if self.sd.done() and self.sd.exception() is not None: self.out.append(["raised", type(self.sd.exception()).__name__])
    def run(self, events):
        trace = []
        for ev in events:
            k = ev[0]
            if k == "req": self.ev_req(*ev[1:])
            elif k == "recv":
                if self.tman.outgoing_requests is None: pass      # transport is closed after shutdown: nothing is dispatched any more
                else: self.ev_recv(*ev[1:])
            elif k == "fire": self.ev_fire()
            elif k == "adv": self.ev_adv(ev[1])
            elif k == "err": self.ev_err(ev[1], ev[2])
            elif k == "cancel": self.ev_cancel(ev[1])
            elif k == "obscancel": self.ev_obscancel(ev[1])
            elif k == "shutdown": self.ev_shutdown()
            elif k == "refuse": (self.refusing.add if ev[2] else self.refusing.discard)(ep(ev[1]))
            else: raise ValueError("unknown event %r" % (ev,))
            trace.append(self.flush())
        og = self.tman.outgoing_requests
        ex = self.mman._active_exchanges
        final = {
            "outgoing": None if og is None else [[list(t), None if rm is None else self.rid_of(rm)] for (t, rm) in og.keys()],
            "exchanges": None if ex is None else sorted([self.rid_of(rm), mid] for (rm, mid) in ex.keys()),
            "backlogs": sorted([self.rid_of(rm), [m.mid for (m, _) in bl]] for rm, bl in self.mman._backlogs.items()),
            "now": self.loop.now_us(),
        }
        return {"trace": trace, "final": final}


# ------------------------------------------------------------------------------------------------ generator
ERRKINDS = ["os", "net", "cre", "msg"]
def tokbytes(ctr): return list((ctr % 2 ** 64).to_bytes(8, "big").lstrip(b"\0"))

class Gen:
    """Builds one event script while predicting tokens / mids the way a network adversary who sniffs the wire could,
    so that forged responses are aimed precisely (right token & wrong remote, retired token, ...)."""
    def __init__(self, rng, token0, mid0):
        self.rng = rng; self.tok = token0; self.mid = mid0; self.reqs = []; self.events = []; self.rid = 0
        self.delayed = []; self.history = []; self.shut = False; self.obsv = {}; self.allow_refuse = True
    def remotes(self): return [0, 1, 2]
    def new_rid(self): self.rid += 1; return self.rid
    def ev(self, e): self.events.append(e)
    def req(self, r=None, mtype="?", obs=None):
        rng = self.rng
        if r is None: r = rng.choice([0, 0, 0, 1, 1, 2, MC_BASE]) if rng.random() < 0.9 else rng.choice([MC_BASE, MC_BASE + 1])
        if mtype == "?": mtype = rng.choice([CON, CON, CON, CON, NON, NON, None])
        if obs is None: obs = rng.random() < 0.3
        q = len(self.reqs)
        info = {"q": q, "r": r, "mtype": mtype, "obs": obs, "tok": None, "mid": None}
        if not self.shut:
            self.tok = (self.tok + 1) % 2 ** 64; info["tok"] = tokbytes(self.tok)
            eff = mtype if mtype is not None else (NON if r >= MC_BASE else CON)
            info["eff"] = eff
            if not (eff == CON and r >= MC_BASE):
                info["mid"] = self.mid; self.mid = (self.mid + 1) & 0xFFFF
        self.reqs.append(info); self.ev(["req", q, r, mtype, obs]); return info
    def other_remote(self, r):
        return self.rng.choice([x for x in [0, 1, 2, 3] if x != r])
    def mutate_token(self, tok):
        rng = self.rng; k = rng.randrange(7)
        others = [x["tok"] for x in self.reqs if x["tok"] is not None and x["tok"] != tok]
        if k == 0 and others: return rng.choice(others)
        if k == 1: return [0] + tok                      # same integer, different token
        if k == 2: return tok[:-1]
        if k == 3: return tokbytes(self.tok + 1)         # the token the next request will get
        if k == 4: return []
        if k == 5: return tok + [0]
        return [rng.randrange(256) for _ in range(rng.randint(1, 8))]
    def response(self, info=None, variant=None):
        """a response datagram aimed at request `info`"""
        rng = self.rng
        known = [x for x in self.reqs if x["tok"] is not None]
        if info is None:
            if not known: return self.stray()
            info = rng.choice(known)
        if variant is None:
            variant = rng.choices(["genuine", "wrong_remote", "wrong_token", "dup", "bad_kind"], [55, 15, 15, 8, 7])[0]
        if variant == "dup" and self.history:
            e = list(rng.choice(self.history)); self.ev(e); return
        r = info["r"] if info["r"] < MC_BASE else rng.choice([0, 1, 2])
        tok = info["tok"]
        if variant == "wrong_remote": r = self.other_remote(r)
        if variant == "wrong_token": tok = self.mutate_token(tok)
        kind = rng.random()
        if info["mid"] is not None and info.get("eff") == CON and kind < 0.4: mtype, mid = ACK, info["mid"]      # piggy-backed
        elif kind < 0.75: mtype, mid = CON, rng.randrange(65536)
        elif kind < 0.95: mtype, mid = NON, rng.randrange(65536)
        else: mtype, mid = ACK, rng.randrange(65536)                                                           # ACK with a wrong mid
        if info["obs"]:
            v = self.obsv.get(info["q"], rng.choice([0, 5, 2 ** 23 - 1, 2 ** 24 - 3]))
            step = rng.choice([1, 1, 1, 2, 0, -1, 2 ** 23, 2 ** 23 + 1, 2 ** 23 - 1])
            v = (v + step) % 2 ** 24; self.obsv[info["q"]] = v
            observe = v if rng.random() < 0.8 else None
        else:
            observe = None if rng.random() < 0.9 else rng.randrange(100)
        code = rng.choice([69, 69, 69, 68, 132, 160, 65])
        if variant == "bad_kind":      # right token, right endpoint, but not a response: a code outside 2.xx-5.xx, or a Reset-typed "response"
            if rng.random() < 0.5: code = rng.choice([192, 200, 224, 225, 63, 32])
            else: mtype, mid = RST, (info["mid"] if info["mid"] is not None and rng.random() < 0.5 else rng.randrange(65536))
        mcl = rng.random() < 0.08
        e = ["recv", r, mcl, mtype, code, mid, tok, observe, self.new_rid()]
        if rng.random() < 0.25: self.delayed.append(e)          # delayed / reordered datagram
        else: self.history.append(e); self.ev(e)
    def release_delayed(self):
        if self.delayed:
            e = self.delayed.pop(self.rng.randrange(len(self.delayed))); self.history.append(e); self.ev(e)
    def empty(self, info=None):
        """empty ACK / RST / ping"""
        rng = self.rng
        sent = [x for x in self.reqs if x["mid"] is not None]
        if info is None and sent and rng.random() < 0.8: info = rng.choice(sent)
        mtype = rng.choice([ACK, ACK, ACK, RST, RST, CON])
        if info is not None and info["mid"] is None: info = None
        if info is not None:
            r = info["r"] if rng.random() < 0.85 else self.other_remote(info["r"])
            mid = info["mid"] if rng.random() < 0.85 else (info["mid"] + rng.choice([1, -1, 256])) & 0xFFFF
        else: r, mid = rng.choice([0, 1, 2]), rng.randrange(65536)
        e = ["recv", r, rng.random() < 0.05, mtype, 0, mid, [], None, 0]
        self.history.append(e); self.ev(e)
    def stray(self):
        rng = self.rng
        code = rng.choice([69, 69, 132, 200, 224, 225, 63, 192])
        self.ev(["recv", rng.choice([0, 1, 2, 3]), rng.random() < 0.1, rng.choice([CON, CON, NON, ACK, RST]), code, rng.randrange(65536),
                 [rng.randrange(256) for _ in range(rng.randint(0, 8))], rng.choice([None, None, 7]), self.new_rid()])
    def random_event(self, maxreq):
        rng = self.rng; x = rng.random()
        if x < 0.22 and len(self.reqs) < maxreq: self.req()
        elif x < 0.60: self.response()
        elif x < 0.70: self.empty()
        elif x < 0.74: self.stray()
        elif x < 0.80: self.release_delayed()
        elif x < 0.88: self.ev(["fire"])
        elif x < 0.91: self.ev(["adv", rng.choice([1, 1000, 999999, 2000000, 2500000, 5000000, 70000000])])
        elif x < 0.935: self.ev(["err", rng.choice([0, 0, 1, 2, 3]), rng.choice(ERRKINDS)])
        elif x < 0.945 and self.allow_refuse: self.ev(["refuse", rng.choice([0, 0, 1, 2]), rng.random() < 0.6])
        elif x < 0.97 and self.reqs: self.ev(["cancel", rng.randrange(len(self.reqs))])
        elif x < 0.99 and self.reqs:
            obs = [i["q"] for i in self.reqs if i["obs"]]
            self.ev(["obscancel", rng.choice(obs) if obs else rng.randrange(len(self.reqs))])
        else:
            self.ev(["shutdown"]); self.shut = True

def decorate(rng, events):
    """Endpoint variation (udp6 address equality is an anchor): with probability 1/2 one or two of the abstract remotes 0..3 become the
    port-5684 sibling of ANOTHER remote in use (same IP, other port = another endpoint: forgeries, errors, refusals and Resets must not leak
    between them), and single datagrams / error reports / requests name their endpoint with another scope id (= the same endpoint)."""
    m = {}
    if rng.random() < 0.5:
        a, b = rng.sample([0, 1, 2, 3], 2); m[b] = SIB + a
        if rng.random() < 0.4:
            rest = [x for x in [0, 1, 2, 3] if x not in (a, b)]; c = rng.choice(rest); d = rng.choice([x for x in [0, 1, 2, 3] if x not in (b, c)])
            if SIB + d not in m.values(): m[c] = SIB + d
    pos = {"req": 2, "recv": 1, "err": 1, "refuse": 1}
    out = []
    for e in events:
        e = list(e); i = pos.get(e[0])
        if i is not None and e[i] < MC_BASE:
            e[i] = m.get(e[i], e[i])
            if e[0] != "refuse" and rng.random() < 0.12: e[i] += ALIAS
        out.append(e)
    return out

def gen_script(rng, kind):
    token0 = rng.choice([rng.randrange(65536), rng.randrange(65536), 0, 255, 65535, 2 ** 64 - 2, 2 ** 64 - 3, 2 ** 56 - 1])
    mid0 = rng.choice([rng.randrange(65536), rng.randrange(65536), 65534, 65535, 0])
    t0 = rng.choice([2000000, 2000000, 2500000, 3000000])
    g = Gen(rng, token0, mid0)
    if kind == "random":
        for _ in range(rng.randint(4, 40)): g.random_event(maxreq=6)
        while g.delayed and rng.random() < 0.7: g.release_delayed()
    elif kind == "nomc":        # unicast only, heavier on errors
        for _ in range(rng.randint(4, 40)):
            if rng.random() < 0.25 and len(g.reqs) < 6: g.req(r=rng.choice([0, 0, 1, 2]))
            elif rng.random() < 0.15: g.ev(["err", rng.choice([0, 1, 2]), rng.choice(ERRKINDS)])
            else: g.random_event(maxreq=0)
    elif kind == "timeout":     # several CONs, little traffic, then every timer until silence
        for _ in range(rng.randint(1, 5)): g.req(r=rng.choice([0, 0, 1]), mtype=rng.choice([CON, CON, None, NON]))
        for _ in range(rng.randint(0, 6)): g.random_event(maxreq=6)
        for _ in range(6 * len(g.reqs) + 6): g.ev(["fire"])
    elif kind == "shutdown":    # a busy scenario with shutdown at a random position, then more traffic
        n = rng.randint(3, 20); pos = rng.randrange(n)
        for i in range(n):
            if i == pos: g.ev(["shutdown"]); g.shut = True
            g.random_event(maxreq=6)
    elif kind == "refuse":      # the transport refuses datagrams to one remote synchronously (sendmsg fails inside send()),
        # with other requests to that remote outstanding (NON, acknowledged CON, observation, un-acked CON + backlog)
        r = rng.choice([0, 0, 1])
        for _ in range(rng.randint(0, 4)):
            g.req(r=r if rng.random() < 0.8 else rng.choice([0, 1, 2, MC_BASE]))
            if rng.random() < 0.5: g.random_event(maxreq=0)
        if rng.random() < 0.5 and g.reqs: g.empty(rng.choice(g.reqs))
        g.ev(["refuse", r, True])
        for _ in range(rng.randint(1, 6)):
            x = rng.random()
            if x < 0.45 and len(g.reqs) < 7: g.req(r=r if rng.random() < 0.8 else rng.choice([0, 1, 2]))
            elif x < 0.6: g.ev(["fire"])
            elif x < 0.7 and g.reqs: g.empty(rng.choice(g.reqs))
            else: g.random_event(maxreq=0)
        if rng.random() < 0.7: g.ev(["refuse", r, False])
        for _ in range(rng.randint(0, 8)): g.random_event(maxreq=7)
        if rng.random() < 0.3:
            for _ in range(12): g.ev(["fire"])
    elif kind == "forge":       # one victim request, then every forgery against it, then the genuine answer
        victim = g.req(r=rng.choice([0, 1, MC_BASE]), mtype=rng.choice([CON, NON, None]) , obs=rng.random() < 0.3)
        for _ in range(rng.randint(0, 2)): g.req()
        for _ in range(rng.randint(2, 10)):
            g.response(victim, rng.choice(["wrong_remote", "wrong_token", "wrong_token", "genuine", "dup"]))
        g.response(victim, "genuine"); g.response(victim, "genuine")
        while g.delayed: g.release_delayed()
    return {"token0": token0, "mid0": mid0, "t0": t0, "events": decorate(rng, g.events)}

def gen_hunt(rng):
    """oracle-only 'collision hunt': one request stays outstanding (empty-ACKed, answered much later) while 255-300 (or ~520) further
    requests to the same remote are issued and answered at once, so that the token counter passes 256 x (victim's counter) --
    any rendering of the counter that is not injective (stripping zeros on the wrong side, truncation, a short modulus) makes a later
    request reuse the victim's token while it is outstanding."""
    token0, fillers, vc = rng.choice([(0, 0, 1), (0, 0, 1), (2 ** 64 - 1, 1, 1), (2 ** 64 - 2, 2, 1), (2 ** 64 - 1, 0, 0), (1, 0, 2), (0, 1, 2)])
    mid0 = rng.randrange(65536); r = rng.choice([0, 1])
    g = Gen(rng, token0, mid0); g.allow_refuse = False
    def quick():
        info = g.req(r=r, mtype=NON, obs=False)
        g.ev(["recv", r, False, NON, 69, rng.randrange(65536), info["tok"], None, g.new_rid()])
    for _ in range(fillers): quick()
    victim = g.req(r=r, mtype=CON, obs=False)
    g.ev(["recv", r, False, ACK, 0, victim["mid"], [], None, 0])
    n = (255 * vc if vc else 255) + rng.randint(0, 45)
    for i in range(n):
        quick()
        if rng.random() < 0.01: g.ev(["recv", rng.choice([0, 1, 2]), False, CON, 69, rng.randrange(65536), victim["tok"] + [0], None, g.new_rid()])   # forged: victim's token with a zero appended
    g.ev(["recv", r, False, CON, 69, rng.randrange(65536), victim["tok"], None, g.new_rid()])      # the late genuine answer
    g.ev(["recv", r, False, CON, 69, rng.randrange(65536), victim["tok"], None, g.new_rid()])      # ... and its duplicate (retired by then)
    return {"token0": token0, "mid0": mid0, "t0": 2000000, "events": g.events}

HUNT_EVERY = 50     # share of oracle-only collision hunts in every tier (also reached by fw's extended search after a broken obligation)
KINDS = ["random"] * 5 + ["nomc"] * 3 + ["timeout", "shutdown", "forge", "forge", "refuse", "refuse", "refuse"]

# ------------------------------------------------------------------------------------------------ the plugin
EXN_NAMES = {"OtherError": "InvalidStateError"}

class C02(fw.Property):
    id = "C02"
    coq_props = "Props/C02.v"
    gen_jobs = ["tokenmanager_next_token"]
    model_imports = ["Verif.Lib.Py", "Verif.Gen.tokenmanager_next_token", "Verif.Model.C02"]
    quick_budget = 300
    thorough_budget = 12000
    design_ref = "DESIGN.md section 7"
    technique = ("Coq invariant/refinement proofs over an executable model of TokenManager + Pipe + Request + client side of MessageManager "
                 "(next_token translated from source); differential correspondence of complete output traces with the real objects under a virtual-time loop")
    level_text = ("Theorems (closed under the global context) over Model/C02.v for ALL event lists: responses are delivered only to the outstanding request registered under "
                  "(token, source endpoint) (or (token, None) for a multicast request); unmatched CON responses yield exactly one RST (none when received on a multicast address), "
                  "matched ones exactly one empty ACK; every request completes at most once and only with a library error class; a completed non-observe request's key is gone; "
                  "transport errors / shutdown / RST / retransmission give-up fail the affected outstanding requests, including the request being sent when the transport refuses it from inside send_message "
                  "(registration before send); tokens of outstanding requests are pairwise different (< 2^64 requests). "
                  "The model is tied to the code by comparing complete per-event output traces and final tables with the real objects.")
    level_note = ("Liveness is conditional (section 7 of the design): NON requests and empty-ACKed CON requests without response stay pending by design. The transport-error / give-up theorems are "
                  "unconditional since /repo commit a3add01 (udp6 address == None is False; before, dispatch_error raised AttributeError while a multicast request was pending - the oracle keeps the "
                  "signatures C02:...:mc-pending so a regression is a VIOLATION). Observation freshness uses a frozen time.time() (the OBSERVATION_RESET_TIME clause is C07's). "
                  "Server side / request codes, real sockets and real-time jitter are not modelled.")
    rule = ("event scripts (4-45 events) against a fresh Context: up to 6 concurrent requests (CON/NON/default, observe or not) to 3 unicast remotes and multicast groups; responses aimed at "
            "outstanding/retired requests as piggy-backed ACK / separate CON / NON / ACK with wrong mid, genuine or forged (right token+wrong remote, mutated/guessed/retired token), duplicated, "
            "delayed and reordered, received on unicast or multicast addresses; empty ACK/RST/ping with right or wrong mid/remote; codes that do not fit; timer firings and time advances; "
            "transport errors per remote (OSError, NetworkError, subclasses); response-future cancellation; observation cancellation; shutdown at any point followed by more traffic; "
            "token counter near 2^64 and mid counter near 2^16; endpoints are REAL udp6 addresses incl. a v4-mapped host, in half of the scripts one or two remotes are the port-5684 siblings of another "
            "remote's IP (different endpoint: forgeries / errors / refusals / Resets must not leak), 12% of the datagrams, error reports and requests name their endpoint with another scope id (same endpoint); "
            "responses with the right token from the right endpoint but a code outside 2.xx-5.xx or typed RST; the transport refusing datagrams to a remote synchronously (send() calls MessageManager.dispatch_error(OSError) from inside, as udp6 does when "
            "sendmsg fails), switched on/off at any point, with NON / acknowledged CON / un-acked CON + backlog / observations outstanding to that remote, refused ACK/RST replies, refused retransmissions "
            "and refused backlog releases. Streams: random, nomc (unicast only), timeout (all timers until silence), shutdown, forge, refuse; plus the oracle-only stream collision_hunt (1 in 50: "
            "one request outstanding while 255-560 further requests to the same remote are issued and answered, token counter started at 0 / 1 / just below 2^64, so that a non-injective token rendering collides). "
            "Non-trivial = at least one response delivered and at least one response rejected (unmatched) in the same script; distinct by full script.")
    trusted_base = ["translator translate/py2v.py (+ the lstrip rule in translate/jobs/c02.py) and Lib/Py.v prelude, validated by the token outputs of every script",
                    "hand-written Model/C02.v, validated by the correspondence streams (complete traces, 0 disagreements required)",
                    "harness/simloop.py virtual-time loop (ideal timers, FIFO ready queue); fake message interface; real udp6 endpoint address class with synthetic sockaddr/pktinfo"]
    assumptions = ["each external event is followed by running the event loop until the ready queue is empty (event + its consequences = one model step)",
                   "the application cancels an observation only after the first response arrived; request ids are fresh",
                   "no datagram is dispatched after Context.shutdown (the transport is closed)",
                   "Context.request() and its send() task run as one step (no cancel / shutdown between creating the Request and TokenManager.request); every request is routable "
                   "(recognize_remote is always true: the NoRequestInterface / MissingRemoteError path of Context.request is not exercised); send() never raises other than ConToMulticast",
                   "a refusing transport is the fake interface's send() calling dispatch_error(OSError(ENETUNREACH), remote) before returning, nothing on the wire (udp6.py:504/694); only unicast remotes refuse",
                   "time.time() frozen for the observation freshness rule; random.uniform returns the script's ACK timeout"]

    def gen_cases(self, tier, rng, n):
        for k in range(n):
            if k % HUNT_EVERY == HUNT_EVERY - 1:
                yield "collision_hunt", gen_hunt(rng); continue
            kind = KINDS[k % len(KINDS)]
            yield kind, gen_script(rng, kind)
        if tier == "thorough":
            # shutdown / transport error / cancellation inserted at EVERY position of fixed busy scenarios
            for seed in range(12):
                r2 = __import__("random").Random(1000 + seed)
                base = gen_script(r2, "nomc" if seed % 2 else "random")
                evs = base["events"]
                for fault in (["shutdown"], ["err", 0, "os"], ["cancel", 0], ["fire"]):
                    for pos in range(len(evs) + 1):
                        yield "fault_everywhere", dict(base, events=evs[:pos] + [fault] + evs[pos:])

    # ---------------------------------------------------------------- implementation
    def impl(self, stream, inp):
        return Driver(inp).run(inp["events"])

    # ---------------------------------------------------------------- model
    def model(self, stream, inp):
        if stream == "collision_hunt": return None      # oracle-only stream (300-600 events per script; the model adds nothing to a token collision)
        def wire(mtype, code, mid, tok, obs, rid):
            return "{| w_mtype := %s; w_code := %s; w_mid := %s; w_token := %s; w_observe := %s; w_rid := %s |}" % (
                gz(mtype), gz(code), gz(mid), gbytes(tok), gopt(obs, gz), gz(rid if code != 0 else 0))
        evs = []
        for e in inp["events"]:
            k = e[0]
            if k == "req": evs.append("Request %s %s %s %s" % (gz(e[1]), gz(ep(e[2])), gopt(e[3], gz), gbool(e[4])))
            elif k == "recv": evs.append("Recv %s %s %s" % (gz(ep(e[1])), gbool(e[2]), wire(*e[3:])))
            elif k == "fire": evs.append("Fire")
            elif k == "adv": evs.append("Adv %s" % gz(e[1]))
            elif k == "err": evs.append("Err %s %s" % (gz(ep(e[1])), {"os": "EOs", "net": "(ENet NetworkError)", "cre": "(ENet ConRetransmitsExceeded)", "msg": "(ENet MessageError)"}[e[2]]))
            elif k == "cancel": evs.append("Cancel %s" % gz(e[1]))
            elif k == "obscancel": evs.append("ObsCancel %s" % gz(e[1]))
            elif k == "shutdown": evs.append("Shutdown")
            elif k == "refuse": evs.append("Refuse %s %s" % (gz(ep(e[1])), gbool(e[2])))
            else: raise ValueError(k)
        return "let r := run (init %s %s %s) %s in (snd r, snapshot (fst r))" % (gz(inp["token0"]), gz(inp["mid0"]), gz(inp["t0"]), glist(evs))
    def decode(self, stream, inp, p):
        trace, snap = p
        def opt(x, f=lambda y: y):
            if isinstance(x, fw.Ctor) and x.name == "None": return None
            assert isinstance(x, fw.Ctor) and x.name == "Some", x
            return f(x.args[0])
        def exn(e): return EXN_NAMES.get(e.name, e.name)
        def item(o):
            n, a = o.name, o.args
            if n == "Send": return ["send", a[0], a[1], a[2], a[3], list(a[4]), opt(a[5])]
            if n == "Token": return ["token", a[0], list(a[1])]
            if n == "SetResult": return ["result", a[0], a[1], list(a[2]), a[3]]
            if n == "SetException": return ["exception", a[0], exn(a[1])]
            if n == "Cancelled": return ["cancelled", a[0]]
            if n == "Notify": return ["notify", a[0], a[1], list(a[2]), a[3]]
            if n == "ObsError": return ["obserr", a[0], exn(a[1])]
            if n == "Raised": return ["raised", exn(a[0])]
            if n == "LoopExc": return ["loopexc", exn(a[0])]
            if n == "Crash": return ["crash", exn(a[0])]
            raise ValueError(n)
        og, ex, bl, now = snap
        return {"trace": [canon([item(o) for o in evo]) for evo in trace],
                "final": {"outgoing": opt(og, lambda l: [[list(k[0]), opt(k[1])] for k in l]),
                          "exchanges": opt(ex, lambda l: sorted([k[0], k[1]] for k in l)),
                          "backlogs": sorted([b[0], list(b[1])] for b in bl), "now": now}}

    # ---------------------------------------------------------------- oracle: the property on the implementation's behaviour
    def oracle(self, stream, inp, res):
        if "harness_exception" in res: return ("C02:crash:" + res["where"], "driver raised %s: %s" % (res["harness_exception"], res.get("text")))
        import aiocoap.error as E
        def is_lib(name): return isinstance(getattr(E, name, None), type) and issubclass(getattr(E, name), E.Error)
        def is_net(name): return is_lib(name) and issubclass(getattr(E, name), E.NetworkError)
        R = {}                      # q -> bookkeeping
        shut = False
        refusing = set()      # remotes for which the transport currently refuses datagrams synchronously
        def outstanding(): return [x for x in R.values() if x["live"]]
        def matches(x, tok, r): return x["live"] and x["tok"] == tok and (x["mc"] or x["r"] == r)
        events = [norm_event(e) for e in inp["events"]]      # endpoints by plain id: another scope id is the same endpoint
        for ev, outs in zip(events, res["trace"]):
            k = ev[0]
            sends = [o for o in outs if o[0] == "send"]
            escaped = [o[1] for o in outs if o[0] in ("raised", "loopexc")]
            mcpend = ":mc-pending" if any(x["mc"] for x in outstanding()) else ""
            completions = [o for o in outs if o[0] in ("result", "exception", "cancelled")]
            deliveries = [o for o in outs if o[0] in ("result", "notify")]
            # -- every request completes at most once, and only with a library error
            for o in completions:
                q = o[1]
                if q not in R and not (k == "req" and ev[1] == q): return ("C02:completion-of-unknown-request", "%r" % (o,))
                if q in R and R[q]["done"] is not None: return ("C02:completed-twice", "request %d completed again with %r after %r" % (q, o, R[q]["done"]))
                if o[0] == "exception" and not is_lib(o[2]): return ("C02:non-library-exception:" + o[2], "request %d failed with %s, not derived from aiocoap.error.Error" % (q, o[2]))
            if len(set(o[1] for o in completions)) != len(completions): return ("C02:completed-twice", "two completions of one request in one step: %r" % (completions,))
            # -- deliveries only as the answer to the datagram being processed, to the matching outstanding request
            for o in deliveries:
                q, rid, tok, frm = o[1], o[2], o[3], o[4]
                if k != "recv" or ev[8] != rid: return ("C02:delivery-without-response", "%r handed out while processing %r" % (o, ev))
                x = R.get(q)
                if x is None or not x["live"]: return ("C02:delivered-to-retired", "response %d delivered to request %d which is not outstanding" % (rid, q))
                if tok != ev[6] or x["tok"] != ev[6]: return ("C02:delivered-wrong-token", "response with token %r delivered to request %d (token %r)" % (ev[6], q, x["tok"]))
                if frm != ev[1] or not (x["mc"] or x["r"] == ev[1]): return ("C02:delivered-wrong-remote", "response from remote %d delivered to request %d sent to %d" % (ev[1], q, x["r"]))
                if not (64 <= ev[4] < 192): return ("C02:delivered-non-response", "code %d delivered" % ev[4])
                if o[0] == "notify" and (x["obs_cancelled"] or x["done"] is None): return ("C02:notify-unexpected", "notification %d for request %d (cancelled=%s, first response seen=%s)" % (rid, q, x["obs_cancelled"], x["done"] is not None))
            if len(deliveries) > 1: return ("C02:response-delivered-twice", "%r" % (deliveries,))
            # -- per event kind
            if k == "req":
                q, r = ev[1], ev[2]
                tok = next((o[2] for o in outs if o[0] == "token" and o[1] == q), None)
                failed = next((o for o in completions if o[1] == q), None)
                if tok is not None:
                    for x in outstanding():
                        if x["tok"] == tok and (x["r"] == r or x["mc"] or r >= MC_BASE):
                            return ("C02:token-reused", "request %d got token %r which request %d (outstanding, same endpoint) is using" % (q, tok, x["q"]))
                R[q] = {"q": q, "r": r, "mc": r >= MC_BASE, "obs": ev[4], "tok": tok, "live": tok is not None and failed is None, "done": failed,
                        "refused_at_request": r in refusing, "on_wire": False,
                        "obs_cancelled": False, "con": None, "mid": None, "acked": False, "gaveup": False}
                mine = [s for s in sends if s[5] == tok and s[3] == 1]
                if mine: R[q]["con"] = mine[0][2] == CON; R[q]["mid"] = mine[0][4]; R[q]["on_wire"] = True
                elif failed is None: R[q]["con"] = True          # not on the wire yet: queued behind another CON
                if shut and failed is None: return ("C02:request-after-shutdown-pending", "request %d issued after shutdown did not fail" % q)
                if shut and failed[2] != "LibraryShutdown": return ("C02:request-after-shutdown-pending", "request %d after shutdown: %r" % (q, failed))
            elif k == "recv" and not shut:
                r, mcl, mtype, code, mid, tok = ev[1:7]
                for s in sends:       # learn mids of requests released from the backlog
                    for x in R.values():
                        if s[3] == 1 and x["tok"] == s[5] and x["mid"] is None: x["mid"] = s[4]; x["con"] = s[2] == CON; x["on_wire"] = True
                if mtype in (ACK, RST):
                    for x in R.values():
                        if x["r"] == r and x["mid"] == mid:
                            # a Reset for a CON request whose exchange is still open (never acknowledged) must fail it
                            if mtype == RST and x["live"] and x["con"] and not x["acked"] and not x["gaveup"]: x["rst_seen"] = True
                            x["acked"] = True
                is_resp = 64 <= code < 192
                if r in refusing:      # the library's ACK / RST to r is refused by the transport like everything else: nothing can be on the wire
                    if [s for s in sends if s[1] == r]: return ("C02:datagram-to-refusing-remote", "%r" % (sends,))
                    mcl = True         # ... so neither ACK nor RST is expected below (same expectation as for multicast reception)
                cands = [x for x in R.values() if matches(x, tok, r)] if is_resp else []
                acks = [s for s in sends if s[1] == r and s[2] == ACK and s[3] == 0 and s[4] == mid]
                rsts = [s for s in sends if s[1] == r and s[2] == RST and s[3] == 0 and s[4] == mid]
                other_replies = [s for s in sends if s[2] in (ACK, RST) and s not in acks and s not in rsts]
                if other_replies: return ("C02:spurious-reply", "%r while processing %r" % (other_replies, ev))
                if is_resp and mtype in (CON, NON, ACK):
                    if not cands:
                        if deliveries: return ("C02:delivered-unmatched", "%r delivered although no outstanding request has token %r towards remote %d" % (deliveries, tok, r))
                        if mtype == CON and not mcl and (len(rsts) != 1 or acks): return ("C02:unmatched-con-not-reset", "unmatched CON response %r answered with %r" % (ev, sends))
                        if mtype == CON and mcl and (rsts or acks): return ("C02:reply-to-multicast", "unmatched CON response received on a multicast address answered with %r" % (sends,))
                        if mtype != CON and (rsts or acks): return ("C02:spurious-reply", "%r answered with %r" % (ev, sends))
                    else:
                        x = cands[0]
                        if x["obs_cancelled"]:
                            if mtype == CON and len(acks) + len(rsts) != (0 if r in refusing else 1): return ("C02:matched-con-not-acked", "%r answered with %r" % (ev, sends))
                            x["live"] = False
                        else:
                            if mtype == CON and (len(acks) != (0 if r in refusing else 1) or rsts): return ("C02:matched-con-not-acked", "matched CON response %r answered with %r" % (ev, sends))
                            if mtype != CON and (acks or rsts): return ("C02:spurious-reply", "%r answered with %r" % (ev, sends))
                            failed_now = any(o[0] == "exception" and o[1] == x["q"] for o in completions)   # e.g. the message layer's own send was refused first
                            if x["done"] is None and not failed_now and not any(o[0] == "result" and o[1] == x["q"] for o in deliveries):
                                return ("C02:matching-response-not-delivered", "response %r matches outstanding request %d but was not delivered" % (ev, x["q"]))
                            final = not (x["obs"] and ev[7] is not None)
                            if final: x["live"] = False
                else:
                    if deliveries: return ("C02:delivered-non-response", "%r" % (deliveries,))
                    if code == 0 and mtype == CON: pass        # ping: answered with RST (C10's subject)
                    elif acks or rsts: return ("C02:spurious-reply", "%r answered with %r" % (ev, sends))
                # RST for the exchange of an outstanding CON request fails it with MessageError
                if mtype == RST:
                    for x in R.values():
                        if x.pop("rst_seen", False) and x["done"] is None and x["live"]:
                            if not any(o[0] == "exception" and o[1] == x["q"] for o in completions):
                                return ("C02:reset-not-delivered", "RST for mid %d of request %d did not fail it" % (mid, x["q"]))
            elif k == "err" and not shut:
                r = ev[1]
                for x in outstanding():
                    if x["r"] == r and not x["mc"]:
                        c = next((o for o in completions if o[1] == x["q"]), None)
                        if x["done"] is None and (c is None or c[0] != "exception" or not is_net(c[2])):
                            return ("C02:error-not-delivered:%s%s" % (escaped[0] if escaped else "silent", mcpend),
                                    "transport error for remote %d: outstanding request %d got %r (escaped: %r)" % (r, x["q"], c, escaped))
                        x["live"] = False
            elif k == "cancel":
                x = R.get(ev[1])
                if x is not None and x["done"] is None:
                    if not any(o[0] == "cancelled" and o[1] == x["q"] for o in completions): return ("C02:cancel-lost", "request %d" % x["q"])
                    x["live"] = False
            elif k == "obscancel":
                x = R.get(ev[1])
                if x is not None and x["obs"] and x["live"] and x["done"] is not None and x["done"][0] == "result": x["obs_cancelled"] = True
            elif k == "refuse":
                if ev[2]: refusing.add(ev[1])
                else: refusing.discard(ev[1])
            elif k == "shutdown" and not shut:
                for x in outstanding():
                    c = next((o for o in completions if o[1] == x["q"]), None)
                    if x["done"] is None and (c is None or c[0] != "exception" or c[2] != "LibraryShutdown"):
                        return ("C02:shutdown-not-delivered:%s" % (escaped[0] if escaped else "silent"), "request %d outstanding at shutdown got %r" % (x["q"], c))
                    x["live"] = False
                shut = True
            # -- failures are attributed per FULL endpoint (host and port): what happens at / is reported for one endpoint never fails a
            #    request to another one (requests to multicast groups accept answers from anywhere, they are exempt)
            failed = [R[o[1]] for o in outs if o[0] in ("exception", "obserr") and o[1] in R and not R[o[1]]["mc"]]
            if failed and k != "shutdown":
                if k in ("req", "recv", "err"):
                    here = ev[2] if k == "req" else ev[1]
                    for x in failed:
                        if x["r"] != here: return ("C02:failure-leaked-to-other-endpoint", "%r concerns endpoint %d but failed request %d to endpoint %d: %r" % (ev, here, x["q"], x["r"], outs))
                elif k == "fire":
                    if len(set(x["r"] for x in failed)) > 1: return ("C02:failure-leaked-to-other-endpoint", "one timer failed requests to several endpoints: %r" % (outs,))
                else: return ("C02:spurious-failure", "%r failed requests: %r" % (ev, outs))
            # completions retire the request
            for o in completions:
                x = R.get(o[1])
                if x is not None:
                    x["done"] = o
                    if o[0] != "result" or not x["obs"]: x["live"] = False
            for o in outs:
                if o[0] == "obserr" and o[1] in R: R[o[1]]["live"] = False
                if o[0] == "exception" and o[1] in R and k in ("fire",): pass
            # nothing may escape from the library into the transport / the event loop (since 11456f9 and 8d04b7c this also holds
            # under refusing transports: no KeyError out of _continue_backlog, no resurrected exchange raising later)
            if escaped:
                return ("C02:exception-escaped:%s:%s%s" % (escaped[0], k, mcpend), "%s escaped from the library while processing %r" % (escaped[0], ev))
            if any(o[0] == "crash" for o in outs): return ("C02:model-crash", "%r" % (outs,))
        fin = res["final"]
        # -- a request that never went onto the wire, for whose remote nothing is scheduled any more (no exchange, no backlog),
        #    can never complete: it must not be pending. (The transport refused its first transmission from inside send():
        #    the error fan-out has to find the request, i.e. it must be registered before it is sent.)
        if fin["exchanges"] is not None and not shut:
            for x in R.values():
                if x["tok"] is not None and x["done"] is None and not x["mc"] and not x["on_wire"] \
                        and not any(e[0] == x["r"] for e in fin["exchanges"]) and not any(b[0] == x["r"] for b in fin["backlogs"]):
                    return ("C02:request-to-refusing-remote-never-completed" if x["refused_at_request"] else "C02:request-never-sent-nor-completed",
                            "request %d to remote %d never went onto the wire, no exchange or backlog is left for that remote, and it is still pending" % (x["q"], x["r"]))
        # -- an un-acknowledged CON request cannot stay pending once every timer has run out
        if fin["exchanges"] == [] and not shut:
            for x in R.values():
                if x["con"] and not x["mc"] and x["tok"] is not None and x["done"] is None and not x["acked"]:
                    return ("C02:unacked-con-never-completed", "CON request %d (mid %r) was never acknowledged, all timers ran out, and it is still pending" % (x["q"], x["mid"]))
        # -- the table holds exactly the outstanding requests
        if fin["outgoing"] is not None:
            want = sorted(([x["tok"], None if x["mc"] else x["r"]] for x in R.values() if x["live"] and not x["obs_cancelled"]), key=jd)
            have = sorted((k for k in fin["outgoing"] if not any(x["obs_cancelled"] and x["tok"] == k[0] for x in R.values())), key=jd)
            if jd(want) != jd(have): return ("C02:table-mismatch", "outgoing_requests holds %r, outstanding are %r" % (have, want))
        return None

    def nontrivial(self, stream, inp, res):
        tr = res.get("trace", [])
        delivered = any(o[0] in ("result", "notify") for outs in tr for o in outs)
        rejected = any(ev[0] == "recv" and 64 <= ev[4] < 192 and not any(o[0] in ("result", "notify") for o in outs) for ev, outs in zip(inp["events"], tr))
        return fw.jdump(inp) if delivered and rejected else None

def jd(x): return json.dumps(x, sort_keys=True)

PROPERTY = C02()
