"""C11 — OSCORE protect/unprotect: round trip, inner data hidden, responses bound, tampering detected.

Correspondence of coq/Model/C11.v with the real aiocoap.oscore (CanProtect.protect, CanUnprotect.unprotect, _compress,
_uncompress, _construct_nonce, _extract_external_aad, RequestIdentifiers) on scripted scenarios:
  sym_* streams : the real code runs over a *symbolic* AEAD object (ciphertext = lp(key) lp(nonce) lp(aad) lp(plaintext) plaintext), the model
                  over the same scheme (Model/C11.sym_aead) -> every byte of every outer message, every request id, sequence
                  number and replay window is compared; the ciphertext exposes key, nonce, AAD and plaintext to the oracle.
  aes_* streams : the real code runs over the (stub) AES-CCM algorithms with HKDF-derived keys; the model runs the same scenario
                  with an ideal KDF / the symbolic AEAD and everything except ciphertext bytes is compared.
The oracle states the property on the implementation's behaviour only (own CoAP/OSCORE-option/CBOR parsers, RFC 8613 nonce
and AAD layout), independent of the model.
"""
import os, sys, json
import fw
from fw import gz, gbool, gbytes, glist, gopt

sys.path.append(os.path.join(fw.VERIF, "harness", "stubs"))

H = bytes.fromhex
ALLOWED_ERRORS = {"ProtectionInvalid", "DecodeError", "ReplayError", "ReplayErrorWithEcho", "NotAProtectedMessage"}
# (value, key_bytes, tag_bytes, iv_bytes); the first 8 are the AES-CCM rows of oscore.algorithms, the rest symbolic stand-ins for GCM/ChaCha sizes
SYM_ALGS = [(10, 16, 8, 13), (11, 32, 8, 13), (12, 16, 8, 7), (13, 32, 8, 7), (30, 16, 16, 13), (31, 32, 16, 13), (32, 16, 16, 7), (33, 32, 16, 7),
            (1, 16, 16, 12), (24, 32, 16, 12), (-65531, 16, 0, 16)]
AES_ALGS = {"AES-CCM-16-64-128": (10, 16, 8, 13), "AES-CCM-16-64-256": (11, 32, 8, 13), "AES-CCM-64-64-128": (12, 16, 8, 7), "AES-CCM-64-64-256": (13, 32, 8, 7),
            "AES-CCM-16-128-128": (30, 16, 16, 13), "AES-CCM-16-128-256": (31, 32, 16, 13), "AES-CCM-64-128-128": (32, 16, 16, 7), "AES-CCM-64-128-256": (33, 32, 16, 7)}
CLASS_U = (3, 7, 35, 39)
OUTER_ALLOWED = {3, 6, 7, 9, 39}

def lp(b): return len(b).to_bytes(2, "big") + b
def minbytes(v): return v.to_bytes((v.bit_length() + 7) // 8, "big")

# ------------------------------------------------------------------------------------------------ harness-side objects
_sym_cache = {}
def sym_alg(params):
    import aiocoap.oscore as o
    params = tuple(params)
    if params not in _sym_cache:
        class Sym(o.AeadAlgorithm):
            value, key_bytes, tag_bytes, iv_bytes = params
            def encrypt(self, plaintext, aad, key, iv): return lp(key) + lp(iv) + lp(aad) + lp(plaintext) + plaintext
            def decrypt(self, ct, aad, key, iv):
                hdr = lp(key) + lp(iv) + lp(aad); rest = ct[len(hdr):]
                if ct[:len(hdr)] != hdr or len(rest) < 2 or len(rest) % 2 or rest != lp(rest[2 + (len(rest) - 2) // 2:]) + rest[2 + (len(rest) - 2) // 2:]:
                    raise o.ProtectionInvalid("Tag invalid")
                return rest[2 + (len(rest) - 2) // 2:]
        _sym_cache[params] = Sym()
    return _sym_cache[params]

def make_ctx(spec):
    import aiocoap.oscore as o
    class Ctx(o.CanProtect, o.CanUnprotect, o.SecurityContextUtils):
        def post_seqnoincrease(self): pass
    c = Ctx()
    c.sender_id, c.recipient_id = H(spec["sid"]), H(spec["rid"])
    c.id_context = None if spec["idctx"] is None else H(spec["idctx"])
    if "secret" in spec:
        c.alg_aead = o.algorithms[spec["algname"]]; c.hashfun = o.hashfunctions[spec.get("hash", "sha256")]
        c.derive_keys(None if spec["salt"] is None else H(spec["salt"]), H(spec["secret"]))
    else:
        c.alg_aead = sym_alg(spec["alg"])
        c.sender_key, c.recipient_key, c.common_iv = H(spec["skey"]), H(spec["rkey"]), H(spec["civ"])
    c.sender_sequence_number = spec["seq"]
    c.recipient_replay_window = o.ReplayWindow(32, lambda: None)
    if spec["window"] is not None:
        c.recipient_replay_window.initialize_from_persisted({"index": spec["window"][0], "bitfield": spec["window"][1]})
    c.echo_recovery = None if spec.get("echo") is None else H(spec["echo"])      # only the oracle-only *_echo streams set it (the model has echo_recovery = None)
    c.responses_send_kid = bool(spec.get("send_kid", False))
    return c

def alg_params(spec): return tuple(spec["alg"]) if "alg" in spec else AES_ALGS[spec["algname"]]

def build_message(code, opts, payload):
    import aiocoap
    from aiocoap.numbers.optionnumbers import OptionNumber
    m = aiocoap.Message(code=code, payload=payload)
    for n, raw in opts: m.opt.add_option(OptionNumber(n).create_option(decode=raw))
    return m
def canon_opts(m): return [[int(o.number), o.encode().hex()] for o in m.opt.option_list()]
def canon_rid(r): return [r.kid.hex(), r.partial_iv.hex(), bool(r.can_reuse_nonce), [int(r.code_style.request), int(r.code_style.response)]]
def exn_name(e): return "exn:" + type(e).__name__

# ------------------------------------------------------------------------------------------------ independent parsers (oracle)
def parse_coap(b):
    """minimal RFC 7252 datagram parser, independent of aiocoap: (code, [(number, value)], payload)"""
    tkl = b[0] & 15; code = b[1]; i = 4 + tkl; num = 0; opts = []
    while i < len(b):
        if b[i] == 0xFF: return code, opts, b[i + 1:]
        d, l = b[i] >> 4, b[i] & 15; i += 1
        if d == 13: d = b[i] + 13; i += 1
        elif d == 14: d = int.from_bytes(b[i:i + 2], "big") + 269; i += 2
        if l == 13: l = b[i] + 13; i += 1
        elif l == 14: l = int.from_bytes(b[i:i + 2], "big") + 269; i += 2
        num += d; opts.append((num, b[i:i + l])); i += l
    return code, opts, b""
def ext_field(v):
    if v < 13: return v, b""
    if v < 269: return 13, bytes([v - 13])
    return 14, (v - 269).to_bytes(2, "big")
def encode_options(opts):
    out = b""; prev = 0
    for n, v in opts:
        d, de = ext_field(n - prev); l, le = ext_field(len(v)); out += bytes([d << 4 | l]) + de + le + v; prev = n
    return out
def encode_coap(code, opts, payload):
    """the datagram the harness puts on the wire for an outer message: CON, mid 0x1234, token aa"""
    return bytes([0x41, code, 0x12, 0x34, 0xAA]) + encode_options(opts) + (b"\xff" + payload if payload else b"")
def parse_inner(pt):
    code, opts, payload = parse_coap(b"\x40" + pt[:1] + b"\0\0" + pt[1:])
    return code, opts, payload
def parse_oscore_option(v):
    """RFC 8613 section 6.1 -> dict(piv, kid, ctx, group) or None if malformed"""
    if v == b"": return dict(piv=None, kid=None, ctx=None, group=False)
    f, t = v[0], v[1:]
    if f & 0xC0: return None
    n = f & 7
    if n > 5 or len(t) < n: return None
    piv = t[:n] if n else None; t = t[n:]
    ctx = None
    if f & 0x10:
        if not t or len(t) - 1 < t[0]: return None
        ctx = t[1:1 + t[0]]; t = t[1 + t[0]:]
    kid = t if f & 8 else None
    return dict(piv=piv, kid=kid, ctx=ctx, group=bool(f & 0x20))
def build_oscore_option(piv, kid, ctx):
    f = (len(piv) if piv else 0) | (8 if kid is not None else 0) | (0x10 if ctx is not None else 0)
    if f == 0: return b""
    return bytes([f]) + (piv or b"") + (bytes([len(ctx)]) + ctx if ctx is not None else b"") + (kid if kid is not None else b"")
def cbor_head(major, n):
    if n < 24: return bytes([major << 5 | n])
    if n < 256: return bytes([major << 5 | 24, n])
    if n < 65536: return bytes([major << 5 | 25]) + n.to_bytes(2, "big")
    return bytes([major << 5 | 26]) + n.to_bytes(4, "big")
def cbor_bstr(b): return cbor_head(2, len(b)) + b
def rfc_aad(alg_value, kid, piv):
    """RFC 8613 5.4: Enc_structure ["Encrypt0", h'', external_aad], external_aad = [1, [alg], request_kid, request_piv, h'']"""
    alg = cbor_head(0, alg_value) if alg_value >= 0 else cbor_head(1, -1 - alg_value)
    ext = cbor_head(4, 5) + b"\x01" + cbor_head(4, 1) + alg + cbor_bstr(kid) + cbor_bstr(piv) + cbor_bstr(b"")
    return cbor_head(4, 3) + cbor_head(3, 8) + b"Encrypt0" + cbor_bstr(b"") + cbor_bstr(ext)
def rfc_nonce(common_iv, iv_bytes, id_, piv):
    """RFC 8613 5.2"""
    x = bytes([len(id_)]) + id_.rjust(iv_bytes - 6, b"\0") + piv.rjust(5, b"\0")
    return bytes(a ^ b for a, b in zip(common_iv, x))
def split_proxy_uri(u):
    """scheme://host[:port][/seg...][?q&q] of the harness's own Proxy-Uri values (no escapes) -> scheme, host, port|None, path segments, query items"""
    scheme, rest = u.split(b"://", 1)
    rest, _, query = rest.partition(b"?"); auth, _, path = rest.partition(b"/")
    host, _, port = auth.partition(b":")
    return scheme, host, (int(port) if port else None), ([s for s in path.split(b"/")] if path else []), ([q for q in query.split(b"&")] if query else [])
def parse_sym(ct):
    """[key, nonce, aad, plaintext, trailing copy]"""
    out = []
    for _ in range(4):
        n = int.from_bytes(ct[:2], "big"); out.append(ct[2:2 + n]); ct = ct[2 + n:]
    return out + [ct]

# ------------------------------------------------------------------------------------------------ Gallina literals
def g_bytes(b): return "[]" if not b else "(B %d [%s])" % (len(b), "; ".join(str(int.from_bytes(b[i:i + 8], "big")) for i in range(0, len(b), 8)))
def g_hex(h): return g_bytes(H(h))
def g_opts(opts): return glist(["(%s, %s)" % (gz(n), g_hex(v)) for n, v in opts])
def g_msg(m): return "(Build_msg %s %s %s)" % (gz(m["code"]), g_opts(m["opts"]), g_hex(m["payload"]))
def ideal_kdf(spec, role_id):
    """model-side stand-in for HKDF in aes_* streams: an injective encoding of everything the key depends on"""
    return (b"K" + lp(H(spec["secret"])) + (b"\1" + lp(H(spec["salt"])) if spec["salt"] is not None else b"\0") + lp(H(role_id))
            + (b"\1" + lp(H(spec["idctx"])) if spec["idctx"] is not None else b"\0") + spec["algname"].encode() + spec.get("hash", "sha256").encode())
def g_ctx(spec):
    v, k, t, iv = alg_params(spec)
    if "secret" in spec:
        skey, rkey = ideal_kdf(spec, spec["sid"]), ideal_kdf(spec, spec["rid"]); civ = bytes(iv)
    else:
        skey, rkey, civ = H(spec["skey"]), H(spec["rkey"]), H(spec["civ"])
    w = "None" if spec["window"] is None else "(Some (Build_rw 32 %s %s))" % (gz(spec["window"][0]), gz(spec["window"][1]))
    return "(Build_ctx (Build_alg %s %s %s %s) %s %s %s %s %s %s %s %s %s)" % (
        gz(v), gz(k), gz(t), gz(iv), g_hex(spec["sid"]), g_hex(spec["rid"]), gopt(spec["idctx"], g_hex),
        g_bytes(skey), g_bytes(rkey), g_bytes(civ), gz(spec["seq"]), w, gbool(spec.get("send_kid", False)))
def g_tamper(t):
    k = t[0]
    if k in ("optbit", "paybit"): return "(%s %s %s)" % ("TOptBit" if k == "optbit" else "TPayBit", gz(t[1]), gz(t[2]))
    if k == "optset": return "(TOptSet %s)" % g_hex(t[1])
    if k == "optdel": return "TOptDel"
    if k == "payset": return "(TPaySet %s)" % g_hex(t[1])
    if k == "paytrunc": return "(TPayTrunc %s)" % gz(t[1])
    if k == "payappend": return "(TPayAppend %s)" % g_hex(t[1])
    if k == "code": return "(TCode %s)" % gz(t[1])
    if k == "setopt": return "(TSetOpt %s %s)" % (gz(t[1]), gopt(t[2], g_hex))
    raise ValueError(k)
def g_kc(kc): return "KcDefault" if kc == "default" else "KcOff" if kc == "off" else "(KcBytes %s)" % g_hex(kc)
def g_op(o):
    k = o["op"]
    if k == "protect": return "OProtect %s %s %s %s %s %s" % (gz(o["ctx"]), g_msg(o["msg"]), gopt(o["rid"], gz), g_kc(o.get("kc", "default")), gz(o["out"]), gz(o["rout"]))
    if k == "tamper": return "OTamper %s %s %s" % (gz(o["src"]), g_tamper(o["t"]), gz(o["out"]))
    if k == "unprotect": return "OUnprotect %s %s %s %s" % (gz(o["ctx"]), gz(o["src"]), gopt(o["rid"], gz), gz(o["rout"]))
    if k == "forge": return "OForge %s %s %s %s %s" % (gz(o["ctx"]), gopt(o["rid"], gz), gopt(o["piv"], g_hex), g_hex(o["pt"]), gz(o["out"]))
    raise ValueError(k)

def flip(b, i, bit):
    if not b: return b
    b = bytearray(b); b[i % len(b)] ^= 1 << bit; return bytes(b)
def apply_tamper(t, m):
    """m = canonical dict(code, opts=[[n, hex]], payload=hex) -> new canonical dict (harness-side mirror of Model/C11.apply_tamper)"""
    code, opts, payload = m["code"], [[n, H(v)] for n, v in m["opts"]], H(m["payload"])
    def setopt(n, v):
        rest = [o for o in opts if o[0] != n]
        if v is None: return rest
        return [o for o in rest if o[0] < n] + [[n, v]] + [o for o in rest if o[0] > n]
    osc = next((v for n, v in opts if n == 9), None)
    k = t[0]
    if k == "optbit":
        if osc is not None: opts = setopt(9, flip(osc, t[1], t[2]))
    elif k == "optset": opts = setopt(9, H(t[1]))
    elif k == "optdel": opts = setopt(9, None)
    elif k == "paybit": payload = flip(payload, t[1], t[2])
    elif k == "payset": payload = H(t[1])
    elif k == "paytrunc": payload = payload[:t[1]]
    elif k == "payappend": payload = payload + H(t[1])
    elif k == "code": code = t[1]
    elif k == "setopt": opts = setopt(t[1], None if t[2] is None else H(t[2]))
    return {"code": code, "opts": [[n, v.hex()] for n, v in opts], "payload": payload.hex()}

# ------------------------------------------------------------------------------------------------ inner message generator
OPAQUE = [1, 4, 252, 292, 2053, 65001]; STRINGS = [8, 11, 15, 20]; UINTS = [12, 14, 17, 28, 60, 258]
def gen_value(rng, n):
    if n in UINTS or n in (6, 7, 23, 27):
        v = rng.choice([0, 1, 23, 24, 255, 256, 65535, rng.randrange(1 << 16), rng.randrange(1 << 24)])
        if n in (6, 23, 27): v &= 0xFFFFFF
        if n in (12, 17, 7): v &= 0xFFFF
        return minbytes(v)
    if n in STRINGS or n in (3, 39):
        L = rng.choice([0, 1, 3, 8, 12, 13, 14, 20, 40]) if rng.random() < 0.93 else rng.choice([268, 269, 270, 300])
        if n == 3: L = max(1, min(L, 40))
        if n == 39: return rng.choice([b"coap", b"coaps", b"coap+tcp"])
        return bytes(rng.choice(b"abcdefghijklmnopqrstuvwxyz0123456789-._~") for _ in range(L))
    L = rng.choice([0, 1, 2, 8, 12, 13, 16]) if rng.random() < 0.95 else rng.choice([268, 269, 300])
    return bytes(rng.randrange(256) for _ in range(L))
def gen_inner(rng, request, observe="rand"):
    opts = []
    if observe == "rand" and rng.random() < 0.1:
        # bare message: one byte of plaintext, the shortest ciphertext there is (tag_bytes + 1)
        return {"code": rng.choice([1, 2, 4]) if request else rng.choice([65, 66, 67, 68, 132]), "opts": [], "payload": ""}
    if request:
        code = rng.choice([1, 1, 2, 3, 4, 5, 6, 7])
        if rng.random() < 0.5: opts.append([3, gen_value(rng, 3)])
        if rng.random() < 0.2: opts.append([7, gen_value(rng, 7)])
        if rng.random() < 0.1: opts.append([39, gen_value(rng, 39)])
        for _ in range(rng.choice([0, 1, 1, 2, 3])): opts.append([11, gen_value(rng, 11)])
        for _ in range(rng.choice([0, 0, 1, 2])): opts.append([15, gen_value(rng, 15)])
        pool = [1, 4, 5, 12, 17, 23, 27, 60, 252, 258, 292, 2053, 65001]
    else:
        code = rng.choice([65, 66, 67, 68, 69, 69, 69, 95, 128, 132, 160, 165, 191, 64])
        for _ in range(rng.choice([0, 0, 1, 2])): opts.append([8, gen_value(rng, 8)])
        pool = [4, 12, 14, 20, 23, 27, 28, 252, 2053, 65001]
    for n in rng.sample(pool, rng.choice([0, 1, 1, 2, 3, 5])):
        opts.append([n, b"" if n == 5 else gen_value(rng, n)])
    # request Observe: RFC 7641 values 0 / 1 (1 = deregistration is the open finding roundtrip-mismatch:observe:request-nonzero-dropped, kept rare so that
    # it does not cut short many scenarios), seldom another value
    if observe == "rand": observe = rng.choice([None] * 20 + [0] * 8 + [1, 1, 5]) if request else rng.choice([None, None, 0, 7, 300])
    if observe is not None: opts.append([6, minbytes(observe)])
    opts.sort(key=lambda o: o[0])
    payload = bytes(rng.randrange(256) for _ in range(rng.choice([0, 0, 1, 2, 8, 16, 17, 40, 100])))
    return {"code": code, "opts": [[n, v.hex()] for n, v in opts], "payload": payload.hex()}

SEQ_BOUNDARY = [0, 1, 23, 24, 255, 256, 65535, 65536, 2 ** 24 - 1, 2 ** 24, 2 ** 32 - 1, 2 ** 32, 2 ** 40 - 3, 2 ** 40 - 2]
def gen_pair(rng, aes, iv=None):
    """two matching contexts (client 0 / server 1) + the parameters to derive foreign ones"""
    if aes:
        name = rng.choice(sorted(AES_ALGS)); params = AES_ALGS[name]
    else:
        params = rng.choice(SYM_ALGS[:8]) if rng.random() < 0.8 else rng.choice(SYM_ALGS)
    maxid = params[3] - 6
    def rid_(n): return bytes(rng.randrange(256) for _ in range(n))
    la = rng.choice([0, 1, maxid]) if rng.random() < 0.6 else rng.randint(0, maxid)
    lb = rng.choice([0, 1, maxid]) if rng.random() < 0.6 else rng.randint(0, maxid)
    if la == 0 and lb == 0: lb = 1          # sender and recipient id always differ (RFC 8613 3.3)
    ida = rid_(la); idb = rid_(lb)
    while la == lb and la > 0 and idb == ida: idb = rid_(lb)
    idctx = rng.choice([None, None, b"", rid_(1), rid_(8), rid_(rng.randint(0, 30))])
    seqa = rng.choice(SEQ_BOUNDARY) if rng.random() < 0.5 else rng.randrange(0, 2 ** rng.choice([4, 8, 16, 24, 32, 40]) - 2)
    seqb = rng.choice(SEQ_BOUNDARY) if rng.random() < 0.5 else rng.randrange(0, 2 ** rng.choice([4, 8, 16, 24, 32, 40]) - 2)
    base = {"sid": ida.hex(), "rid": idb.hex(), "idctx": None if idctx is None else idctx.hex(), "seq": seqa, "window": [0, 0], "send_kid": rng.random() < 0.15}
    peer = {"sid": idb.hex(), "rid": ida.hex(), "idctx": base["idctx"], "seq": seqb, "window": [0, 0], "send_kid": rng.random() < 0.15}
    # the peer's replay window sits just below the sender's counter (the model evaluates `bitfield >> overshoot` by iteration, so no 2^40 jumps)
    def win(seq): return [max(0, seq - rng.choice([0, 0, 0, 1, 5, 31, 32, 33, 100, 5000])), rng.choice([0, 0, 0, 1, 0x80000000, rng.randrange(1 << 32)])]
    peer["window"] = win(seqa); base["window"] = win(seqb)
    if aes:
        secret = rid_(16).hex(); salt = rng.choice([None, rid_(8).hex()])
        for c in (base, peer): c.update(algname=name, secret=secret, salt=salt)
    else:
        ka, kb, civ = rid_(params[1]), rid_(params[1]), rid_(params[3])
        base.update(alg=list(params), skey=ka.hex(), rkey=kb.hex(), civ=civ.hex()); peer.update(alg=list(params), skey=kb.hex(), rkey=ka.hex(), civ=civ.hex())
    return base, peer
def foreign(rng, spec, aes):
    """a context that differs from `spec` in exactly one ingredient"""
    c = dict(spec); what = rng.choice(["key", "civ", "rid", "idctx", "alg"])
    if aes:
        if what in ("key", "civ"): c["secret"] = bytes(rng.randrange(256) for _ in range(16)).hex()
        elif what == "alg": c["algname"] = rng.choice([n for n in sorted(AES_ALGS) if n != spec["algname"] and AES_ALGS[n][3] == AES_ALGS[spec["algname"]][3]])
    else:
        if what == "key": c["rkey"] = flip(H(spec["rkey"]), rng.randrange(64), rng.randrange(8)).hex()
        elif what == "civ": c["civ"] = flip(H(spec["civ"]), rng.randrange(64), rng.randrange(8)).hex()
        elif what == "alg": c["alg"] = [spec["alg"][0] ^ 1] + spec["alg"][1:]
    if what == "rid":
        maxid = alg_params(spec)[3] - 6; r = H(spec["rid"])
        c["rid"] = (flip(r, rng.randrange(8), rng.randrange(8)) if r and rng.random() < 0.7 else (r + b"\x55")[:maxid] if len(r) < maxid else r[:-1]).hex()
        if c["rid"] == c["sid"]: c["rid"] = spec["rid"]; c["idctx"] = "ff" if spec["idctx"] != "ff" else "fe"
    if what == "idctx":
        c["idctx"] = rng.choice([x for x in [None, "", "01", "37cbf3210017a2d3"] if x != spec["idctx"]])
    return c, what

def gen_tamper(rng, prot_is_request, sender, recipient, seq_used):
    """one manipulation of a protected message; the OSCORE option that `sender` produces is predicted by the harness's own encoder"""
    piv = minbytes(seq_used) or b"\0"
    kid, ctx = H(sender["sid"]), (None if sender["idctx"] is None else H(sender["idctx"]))
    k = rng.random()
    if k < 0.22: return ["optbit", rng.randrange(0, 12), rng.randrange(8)]
    if k < 0.40: return ["paybit", rng.randrange(0, 4096), rng.randrange(8)]
    if k < 0.46: return rng.choice([["paytrunc", rng.choice([0, 1, 7, 8, 9, 15, 16, 17])], ["payappend", "00"], ["payset", ""], ["payset", bytes(rng.randrange(256) for _ in range(rng.choice([8, 9, 17, 30]))).hex()]])
    if k < 0.50: return ["optdel"]
    if k < 0.56: return ["optset", bytes(rng.randrange(256) for _ in range(rng.choice([0, 1, 2, 3, 5, 9]))).hex()]
    if k < 0.60: return ["optset", rng.choice(["10", "1905", "0e01020304050607", "0f", "06000000000000", "20", "28", "29", "1900", "190101", "1801", "09", "0900"])]
    if k < 0.88 and prot_is_request:
        f = rng.choice(["piv+1", "piv-1", "piv0pad", "pivrand", "kid", "kiddrop", "kidext", "ctx", "ctxdrop", "ctxadd", "pivdrop", "group",
                        "ctxempty", "ctxempty", "kidempty", "ctxtrunc", "ctxext"])
        npiv, nkid, nctx = piv, kid, ctx
        if f == "piv+1": npiv = minbytes(seq_used + 1) or b"\0"
        elif f == "piv-1": npiv = minbytes(max(seq_used - 1, 0)) or b"\0"; npiv = npiv if npiv != piv else b"\x01"
        elif f == "piv0pad": npiv = (b"\0" + piv)[:5] if len(piv) < 5 else piv[1:]
        elif f == "pivrand": npiv = bytes(rng.randrange(256) for _ in range(rng.randint(1, 5)))
        elif f == "kid": nkid = flip(kid, rng.randrange(8), rng.randrange(8)) if kid else b"\x00"
        elif f == "kiddrop": nkid = None
        elif f == "kidext": nkid = kid + b"\x00"
        elif f == "ctx": nctx = flip(ctx, rng.randrange(8), rng.randrange(8)) if ctx else b"\x00"
        elif f == "ctxdrop": nctx = None
        elif f == "ctxadd": nctx = ctx if ctx is not None else (H(recipient["idctx"]) if recipient["idctx"] is not None and rng.random() < 0.5 else b"\x01")
        elif f == "pivdrop": npiv = None
        elif f == "ctxempty": nctx = b""            # degenerate values: a zero-length ID context / kid (replaced or injected)
        elif f == "kidempty": nkid = b""
        elif f == "ctxtrunc": nctx = ctx[:-1] if ctx else b"\x00"
        elif f == "ctxext": nctx = (ctx or b"") + b"\x00"
        v = build_oscore_option(npiv, nkid, nctx)
        if f == "group": v = bytes([(v[0] if v else 0) | 0x20]) + v[1:]
        return ["optset", v.hex()]
    if k < 0.88:
        f = rng.choice(["addpiv", "addkid", "addkidwrong", "addctx", "pivrand", "empty", "group", "pivpad", "pivpad", "addctxempty", "addctxempty", "addkidempty", "addctxwrong"])
        own = piv if rng.random() < 0.5 else None      # responses carry their own PIV or none; the injected field goes with either shape
        if f == "pivpad": v = build_oscore_option((b"\0" * rng.randint(1, 5 - len(piv)) + piv) if len(piv) < 5 else piv[1:], kid if sender.get("send_kid") else None, None)
        elif f == "addpiv": v = build_oscore_option(rng.choice([piv, b"\x00", minbytes(seq_used + 1) or b"\0"]), None, None)
        elif f == "addkid": v = build_oscore_option(None, kid, None)
        elif f == "addkidwrong": v = build_oscore_option(None, kid + b"\x01", None)
        elif f == "addctx": v = build_oscore_option(None, None, ctx if ctx is not None else b"\x01")
        elif f == "pivrand": v = build_oscore_option(bytes(rng.randrange(256) for _ in range(rng.randint(1, 5))), None, None)
        elif f == "empty": v = b""
        elif f == "addctxempty": v = build_oscore_option(own, None, b"")
        elif f == "addkidempty": v = build_oscore_option(own, b"", None)
        elif f == "addctxwrong": v = build_oscore_option(own, None, (ctx or b"") + b"\x01")
        else: v = b"\x20"
        return ["optset", v.hex()]
    if k < 0.93: return ["code", rng.choice([2, 5]) if prot_is_request else rng.choice([65, 68, 69, 128, 132, 160])]
    if k < 0.97: return ["setopt", 6, rng.choice([None, "", "01", "05", "ffffff"])]
    return ["setopt", 3, rng.choice([None, "6578616d706c652e6f7267", "61"])]


class C11(fw.Property):
    id = "C11"
    coq_props = "Props/C11.v"
    gen_jobs = ["options_ext", "oscore_replay", "oscore_consts"]
    model_imports = ["Verif.Gen.oscore_replay", "Verif.Model.C11"]
    quick_budget = 300
    thorough_budget = 5000
    design_ref = "DESIGN.md section 16"
    technique = ("Coq proofs over an executable model of protect/unprotect parametrised by an ideal AEAD (round trip, non-interference of the outer message, "
                 "binding of responses, tamper detection, error totality), constants/option-field codec/replay window regenerated from source; "
                 "differential correspondence of the real oscore.py (symbolic AEAD plugged in, and stub AES-CCM) against the model on scripted scenarios")
    level_text = ("Theorems (closed under the global context) over an executable model of CanProtect.protect / CanUnprotect.unprotect, _compress/_uncompress, "
                  "_construct_nonce, _extract_external_aad and the inner option codec, for every ideal AEAD: request round trip through matching contexts, "
                  "non-interference and shape of the outer message, acceptance implies sender's key / algorithm / request kid+PIV / plaintext (tamper detection and "
                  "response-to-request binding), nonce and AAD injectivity, only DecodeError/ProtectionInvalid/ReplayError/NotAProtectedMessage up to decryption. "
                  "All constants, the extended option-field codec and the replay window come from the source on every run; the hand-written model is tied to the "
                  "code by running both (with the same symbolic AEAD, and with stub AES-CCM) on scripted protect/tamper/unprotect scenarios.")
    level_note = ("Round trip proved for requests (default kid_context) and for every response (reused nonce or own Partial IV, with/without responses_send_kid, any outer Observe); "
                  "side condition tag_bytes+1 <= |ciphertext| is a hypothesis on the AEAD's expansion. The tamper statement is proved with its limits explicit: the PIV field of a "
                  "request and the effective KID / ID context are bound, the KID / ID-context fields themselves, trailing option bytes and the encoding of a response's own PIV are not "
                  "(OSCORE option not in the AAD): refuted witnesses in Props/C11.v, open known findings C11:accepted-option-change:*. "
                  "unprotect_finish does not model per-option value validation (invalid UTF-8 in an inner string option). "
                  "Cryptography is idealised (AEAD hypotheses, injective KDF) and stubbed (pure-Python AES-CCM/HKDF; the real cryptography wheel is not installed). "
                  "Not modelled: Group OSCORE, Proxy-Uri splitting in _split_message, Echo recovery (C12), key derivation. "
                  "_compress/_uncompress/_construct_nonce are hand-modelled (py2v.py does not support dicts, bytes*int, generator expressions); "
                  "their constants and the nonce component order are extracted from the source (Gen/oscore_consts.v).")
    rule = ("scenario = contexts + script of protect / tamper / unprotect / forge operations over slots; streams sym_* run the real oscore.py over a symbolic AEAD "
            "and compare every byte with Model/C11.run; aes_* run the stub AES-CCM algorithms with HKDF-derived keys and compare everything but ciphertext bytes. "
            "Non-trivial = at least one unprotect accepted and one rejected, or a round trip through request and response; distinct by full input.")
    trusted_base = ["hand-written Model/C11.v (validated by the sym_*/aes_* streams on every run)",
                    "translator translate/py2v.py + Lib/Py.v prelude for Gen/options_ext.v, Gen/oscore_replay.v; data extraction translate/jobs/c11.py for Gen/oscore_consts.v",
                    "harness stubs for cbor2/cryptography(AES-CCM, HKDF)/filelock; symbolic AEAD class plugged into the real code for the sym_* streams"]
    _impl_cache = {}
    assumptions = ["AEAD idealised (dec succeeds only on honest encryptions under the same key, nonce and AAD; enc injective); KDF idealised as injective",
                   "the real cryptography wheel is never exercised in this sandbox",
                   "Group OSCORE is outside the model; Echo recovery (echo_recovery set) is outside the model and exercised oracle-only (*_echo streams; modelled in C12)",
                   "Proxy-Uri requests are modelled as the code is (protect raises IncompleteUrlError, open finding); non-CoAP schemes / malformed Proxy-Uri values are not generated",
                   "callers of unprotect dispatch by code class and reject request codes other than POST/FETCH before calling (oscore_sitewrapper.py:72)"]

    # fw.coq_eval shards 250 terms per coqc process; a C11 term costs ~0.1-0.2 s (mostly elaboration of the scenario literal), so smaller
    # shards are needed to use the cores (framework change requested in notes/C11.md: make the shard size a Property attribute)
    coq_shard = 53
    def setup(self):
        import functools
        if not hasattr(fw, "_c11_orig_coq_eval"):
            fw._c11_orig_coq_eval = fw.coq_eval
            fw.coq_eval = functools.partial(fw._c11_orig_coq_eval, shard=self.coq_shard)
    def teardown(self):
        if hasattr(fw, "_c11_orig_coq_eval"):
            fw.coq_eval = fw._c11_orig_coq_eval; del fw._c11_orig_coq_eval

    # ---------------------------------------------------------------- generator
    def gen_cases(self, tier, rng, n):
        kinds = ["roundtrip", "tamper", "tamper", "tamper_resp", "cross", "foreign", "ni", "forge", "malformed", "replay"]
        for k in range(n):
            aes = (k % 4 == 3)
            kind = kinds[(k // 4 if aes else k) % len(kinds)] if not aes else rng.choice(["roundtrip", "tamper", "tamper_resp", "cross", "foreign", "ni", "replay"])
            yield ("aes_" if aes else "sym_") + kind, getattr(self, "g_" + kind)(rng, aes)
        # Echo recovery (oracle-only stream: request identifiers under a replay error) and Proxy-Uri requests (model: IncompleteUrlError as the code is)
        for k in range(max(6, n // 12)):
            aes = (k % 3 == 2)
            yield ("aes_" if aes else "sym_") + "echo", self.g_echo(rng, aes)
            yield ("aes_" if aes else "sym_") + "proxy", self.g_proxy(rng, aes)
        if tier == "thorough":
            # exhaustive small scope: EVERY single-bit flip of the OSCORE option and of the ciphertext of one request and one response
            # (own Partial IV), symbolic and AES (validation of the tie and of the oracle, not a proof)
            for aes in (False, True):
                a, b = gen_pair(rng, aes); a["seq"] = 0x1234; b["seq"] = 0x01; b["window"] = [0x1230, 0]; a["window"] = [0, 0]
                if a["idctx"] is None or len(a["idctx"]) > 8: a["idctx"] = b["idctx"] = "c0ffee"
                req = {"code": 1, "opts": [[11, "7476"]], "payload": "0102"}; resp = {"code": 69, "opts": [[12, ""]], "payload": "6f6b"}
                base = [{"op": "protect", "ctx": 0, "msg": req, "rid": None, "kc": "default", "out": 1, "rout": 1}, {"op": "unprotect", "ctx": 1, "src": 1, "rid": None, "rout": 2},
                        {"op": "protect", "ctx": 1, "msg": resp, "rid": 2, "out": 3, "rout": 3}, {"op": "protect", "ctx": 1, "msg": resp, "rid": 2, "out": 4, "rout": 4}]
                optlen_req = 1 + 2 + 1 + len(a["idctx"]) // 2 + len(a["sid"]) // 2
                ctlen = 150 if not aes else 40
                for src, rid_, ctx, nbytes in ((1, None, 1, optlen_req), (4, 1, 0, 2)):
                    for kind, n in (("optbit", nbytes), ("paybit", ctlen)):
                        for i in range(n):
                            for bit in range(8):
                                ops = [o for o in base if not (src == 1 and o["op"] == "unprotect")] if src == 1 else list(base)
                                yield ("aes_" if aes else "sym_") + "bitflip", {"ctxs": [dict(a), dict(b)], "ops": ops + [
                                    {"op": "tamper", "src": src, "t": [kind, i, bit], "out": 9}, {"op": "unprotect", "ctx": ctx, "src": 9, "rid": rid_, "rout": 9},
                                    {"op": "unprotect", "ctx": ctx, "src": src, "rid": rid_, "rout": 10}]}

    def _req_resp(self, rng, A, B, ops, base=0, req=None, resp=None, unprotect_resp=True, idctx="?"):
        """client ctx A protects a request (slot base+1, rid base+1), server ctx B unprotects (rid base+2), protects a response (slot base+3), client unprotects"""
        req = req or gen_inner(rng, True); resp = resp or gen_inner(rng, False)
        # kid_context argument of protect: mostly the default; "off" and the explicit (matching) value are admissible calls too and must round-trip
        k = rng.random(); kc = "default" if k < 0.86 or idctx == "?" else "off" if k < 0.93 or idctx is None else idctx
        ops.append({"op": "protect", "ctx": A, "msg": req, "rid": None, "kc": kc, "out": base + 1, "rout": base + 1})
        ops.append({"op": "unprotect", "ctx": B, "src": base + 1, "rid": None, "rout": base + 2})
        ops.append({"op": "protect", "ctx": B, "msg": resp, "rid": base + 2, "out": base + 3, "rout": base + 3})
        if unprotect_resp: ops.append({"op": "unprotect", "ctx": A, "src": base + 3, "rid": base + 1, "rout": base + 4})
    def g_roundtrip(self, rng, aes):
        a, b = gen_pair(rng, aes); ops = []
        self._req_resp(rng, 0, 1, ops, idctx=a["idctx"])
        if rng.random() < 0.6:   # a notification: second response to the same request uses the server's own Partial IV
            ops.append({"op": "protect", "ctx": 1, "msg": gen_inner(rng, False, observe=rng.choice([1, 9])), "rid": 2, "out": 5, "rout": 5})
            if rng.random() < 0.5: ops.append({"op": "tamper", "src": 5, "t": ["setopt", 6, rng.choice(["", "02", "ffffff"])], "out": 5})
            ops.append({"op": "unprotect", "ctx": 0, "src": 5, "rid": 1, "rout": 6})
        if rng.random() < 0.3:   # and the other direction
            self._req_resp(rng, 1, 0, ops, base=10)
        return {"ctxs": [a, b], "ops": ops}
    def g_tamper(self, rng, aes):
        a, b = gen_pair(rng, aes); a["seq"] = min(a["seq"], 2 ** 40 - 2)
        t = gen_tamper(rng, True, a, b, a["seq"])
        ops = [{"op": "protect", "ctx": 0, "msg": gen_inner(rng, True), "rid": None, "kc": "default", "out": 1, "rout": 1},
               {"op": "tamper", "src": 1, "t": t, "out": 2}, {"op": "unprotect", "ctx": 1, "src": 2, "rid": None, "rout": 2}]
        if rng.random() < 0.5: ops.append({"op": "unprotect", "ctx": 1, "src": 1, "rid": None, "rout": 3})    # the genuine message must still be accepted
        return {"ctxs": [a, b], "ops": ops}
    def g_tamper_resp(self, rng, aes):
        a, b = gen_pair(rng, aes); a["seq"] = min(a["seq"], 2 ** 40 - 2); b["seq"] = min(b["seq"], 2 ** 40 - 2); ops = []
        self._req_resp(rng, 0, 1, ops, unprotect_resp=False)
        own = rng.random() < 0.5
        if own:      # a second response (own Partial IV) is the one that is manipulated
            ops.append({"op": "protect", "ctx": 1, "msg": gen_inner(rng, False), "rid": 2, "out": 3, "rout": 3})
        t = gen_tamper(rng, False, b, a, b["seq"])
        ops += [{"op": "tamper", "src": 3, "t": t, "out": 4}, {"op": "unprotect", "ctx": 0, "src": 4, "rid": 1, "rout": 4}]
        if rng.random() < 0.5: ops.append({"op": "unprotect", "ctx": 0, "src": 3, "rid": 1, "rout": 5})
        return {"ctxs": [a, b], "ops": ops}
    def g_cross(self, rng, aes):
        """two requests in flight; each response is offered to the other request's identifiers (and to its own)"""
        a, b = gen_pair(rng, aes); a["seq"] = min(a["seq"], 2 ** 40 - 3); ops = []
        same_seq_other_ctx = rng.random() < 0.25
        self._req_resp(rng, 0, 1, ops, base=0, unprotect_resp=False)
        if same_seq_other_ctx:
            # a third party with the same keys and ids but its own counter at the same value: identical request identifiers are the only legitimate cross use
            c = dict(a); d = dict(b); ctxs = [a, b, c, d]
            self._req_resp(rng, 2, 3, ops, base=10, unprotect_resp=False)
        else:
            ctxs = [a, b]
            self._req_resp(rng, 0, 1, ops, base=10, unprotect_resp=False)
        if rng.random() < 0.5:   # notifications instead of first responses
            ops.append({"op": "protect", "ctx": 1, "msg": gen_inner(rng, False), "rid": 2, "out": 3, "rout": 3})
            ops.append({"op": "protect", "ctx": 3 if same_seq_other_ctx else 1, "msg": gen_inner(rng, False), "rid": 12, "out": 13, "rout": 13})
        cl2 = 2 if same_seq_other_ctx else 0
        ops += [{"op": "unprotect", "ctx": 0, "src": 13, "rid": 1, "rout": 20}, {"op": "unprotect", "ctx": cl2, "src": 3, "rid": 11, "rout": 21},
                {"op": "unprotect", "ctx": 0, "src": 3, "rid": 1, "rout": 22}, {"op": "unprotect", "ctx": cl2, "src": 13, "rid": 11, "rout": 23}]
        return {"ctxs": ctxs, "ops": ops}
    def g_foreign(self, rng, aes):
        """the protected message is given to a context that differs in one ingredient (key, common IV, recipient id, id context, algorithm)"""
        a, b = gen_pair(rng, aes); a["seq"] = min(a["seq"], 2 ** 40 - 2); ops = []
        if rng.random() < 0.5:
            f, what = foreign(rng, b, aes)
            ops = [{"op": "protect", "ctx": 0, "msg": gen_inner(rng, True), "rid": None, "kc": "default", "out": 1, "rout": 1},
                   {"op": "unprotect", "ctx": 2, "src": 1, "rid": None, "rout": 2}, {"op": "unprotect", "ctx": 1, "src": 1, "rid": None, "rout": 3}]
        else:
            f, what = foreign(rng, a, aes)
            self._req_resp(rng, 0, 1, ops, unprotect_resp=False)
            ops += [{"op": "unprotect", "ctx": 2, "src": 3, "rid": 1, "rout": 4}, {"op": "unprotect", "ctx": 0, "src": 3, "rid": 1, "rout": 5}]
        return {"ctxs": [a, b, f], "ops": ops, "differs": what}
    def g_ni(self, rng, aes):
        """non-interference: two messages that agree on class, Uri-Host and Observe, protected by identical contexts"""
        a, b = gen_pair(rng, aes); a["seq"] = min(a["seq"], 2 ** 40 - 2)
        request = rng.random() < 0.6
        obs = rng.choice([None, None, 0, 1, 7])
        m1 = gen_inner(rng, request, observe=obs); m2 = gen_inner(rng, request, observe=obs)
        for m in (m1, m2): m["opts"] = [o for o in m["opts"] if o[0] != 3]
        if request and rng.random() < 0.6:
            for m in (m1, m2): m["opts"] = sorted(m["opts"] + [[3, b"example.org".hex()]], key=lambda o: o[0])
        if rng.random() < 0.5: m2["payload"] = bytes(rng.randrange(256) for _ in range(len(m1["payload"]) // 2)).hex()
        if request:
            ops = [{"op": "protect", "ctx": 0, "msg": m1, "rid": None, "kc": "default", "out": 1, "rout": 1},
                   {"op": "protect", "ctx": 2, "msg": m2, "rid": None, "kc": "default", "out": 2, "rout": 2}]
            return {"ctxs": [a, b, dict(a)], "ops": ops, "ni": [0, 1]}
        ops = []
        req = gen_inner(rng, True)
        self._req_resp(rng, 0, 1, ops, base=0, req=req, resp=m1, unprotect_resp=False)
        self._req_resp(rng, 2, 3, ops, base=10, req=req, resp=m2, unprotect_resp=False)
        return {"ctxs": [a, b, dict(a), dict(b)], "ops": ops, "ni": [2, 5]}
    def g_forge(self, rng, aes):
        """insider: a key holder encrypts arbitrary plaintext (symbolic AEAD only) — exercises the parsing after decryption"""
        a, b = gen_pair(rng, False); a["seq"] = min(a["seq"], 2 ** 40 - 2); ops = []
        def pt():
            # string options with invalid UTF-8 make the real decoder raise UnparsableMessage; the model has no UTF-8 notion, so such
            # plaintexts (reachable only by a key holder) are not generated
            while True:
                body = pt0()
                try: _, os_, _ = parse_inner(body) if body else (0, [], b"")
                except Exception: return body
                try:
                    for n, v in os_:
                        if n in (3, 8, 11, 15, 20, 35, 39): v.decode("utf-8")
                    return body
                except UnicodeDecodeError: continue
        def pt0():
            k = rng.random()
            if k < 0.15: return b""
            if k < 0.3: return bytes([rng.choice([1, 2, 69, 0, 255])])
            body = bytes([rng.choice([1, 2, 5, 69, 68, 132])])
            for _ in range(rng.randint(0, 3)):
                L = rng.choice([0, 1, 5, 12]); body += bytes([rng.choice([0x10, 0x40, 0xB0, 0xD0, 0xE0, 0xC0]) | L])
                if body[-1] >> 4 == 13: body += bytes([rng.randrange(256)])
                if body[-1] >> 4 == 14 and rng.random() < 0.8: body += bytes([0, rng.randrange(40)])
                body += bytes(rng.choice(b"abcxyz") for _ in range(L if rng.random() < 0.8 else max(L - 1, 0)))
            k = rng.random()
            if k < 0.4: body += b"\xff" + bytes(rng.randrange(256) for _ in range(rng.choice([0, 1, 5])))
            elif k < 0.5: body += bytes([rng.choice([0xF0, 0x0F, 0xFF])])
            return body
        if rng.random() < 0.5:
            ops = [{"op": "forge", "ctx": 0, "rid": None, "piv": rng.choice([None, "05", "0100"]), "pt": pt().hex(), "out": 1},
                   {"op": "unprotect", "ctx": 1, "src": 1, "rid": None, "rout": 2}, {"op": "unprotect", "ctx": 1, "src": 1, "rid": None, "rout": 3}]
        else:
            self._req_resp(rng, 0, 1, ops, unprotect_resp=False)
            ops += [{"op": "forge", "ctx": 1, "rid": 2, "piv": rng.choice([None, "07", "000007"]), "pt": pt().hex(), "out": 4},
                    {"op": "unprotect", "ctx": 0, "src": 4, "rid": 1, "rout": 4}]
        return {"ctxs": [a, b], "ops": ops}
    def g_malformed(self, rng, aes):
        """calls outside the honest envelope: random option bytes, kid_context argument, exhausted / uninitialised contexts, over-long ids, code/request_id mismatch"""
        a, b = gen_pair(rng, False); ops = []; k = rng.random(); extra = {}
        if k < 0.35:
            a["seq"] = min(a["seq"], 2 ** 40 - 2)
            v = bytes(rng.randrange(256) for _ in range(rng.choice([1, 2, 3, 4, 8, 12])))
            if rng.random() < 0.7: v = bytes([v[0] & 0x3F]) + v[1:]
            ops = [{"op": "protect", "ctx": 0, "msg": gen_inner(rng, True), "rid": None, "kc": "default", "out": 1, "rout": 1},
                   {"op": "tamper", "src": 1, "t": ["optset", v.hex()], "out": 2}, {"op": "unprotect", "ctx": 1, "src": 2, "rid": None, "rout": 2}]
        elif k < 0.5:
            a["seq"] = min(a["seq"], 2 ** 40 - 2)
            kc = rng.choice(["off", "", "aabb", (b"x" * rng.choice([255, 256])).hex()])
            ops = [{"op": "protect", "ctx": 0, "msg": gen_inner(rng, True), "rid": None, "kc": kc, "out": 1, "rout": 1},
                   {"op": "unprotect", "ctx": 1, "src": 1, "rid": None, "rout": 2}]
            extra["precond"] = "kid_context argument"
        elif k < 0.62:
            a["seq"] = rng.choice([2 ** 40 - 2, 2 ** 40 - 1, 2 ** 40, 2 ** 40 - 1]); b["window"] = [2 ** 40 - 40, 0]
            ops = [{"op": "protect", "ctx": 0, "msg": gen_inner(rng, True), "rid": None, "kc": "default", "out": 1, "rout": 1},
                   {"op": "protect", "ctx": 0, "msg": gen_inner(rng, True), "rid": None, "kc": "default", "out": 2, "rout": 2},
                   {"op": "unprotect", "ctx": 1, "src": 1, "rid": None, "rout": 3}]
        elif k < 0.72:
            a["seq"] = min(a["seq"], 2 ** 40 - 2); b["window"] = None
            ops = [{"op": "protect", "ctx": 0, "msg": gen_inner(rng, True), "rid": None, "kc": "default", "out": 1, "rout": 1},
                   {"op": "unprotect", "ctx": 1, "src": 1, "rid": None, "rout": 2}]
        elif k < 0.84:
            a["seq"] = min(a["seq"], 2 ** 40 - 2); maxid = a["alg"][3] - 6
            long_id = bytes(rng.randrange(256) for _ in range(maxid + rng.choice([1, 2, 10, 250]))).hex()
            which = rng.choice(["sid", "rid"])
            a[which] = long_id; b["rid" if which == "sid" else "sid"] = long_id
            self._req_resp(rng, 0, 1, ops)
            extra["precond"] = "id longer than iv_bytes - 6"
        else:
            a["seq"] = min(a["seq"], 2 ** 40 - 2)
            self._req_resp(rng, 0, 1, ops, unprotect_resp=False)
            j = rng.random()
            if j < 0.3: ops += [{"op": "protect", "ctx": 0, "msg": gen_inner(rng, False), "rid": None, "kc": "default", "out": 5, "rout": 5}]
            elif j < 0.6: ops += [{"op": "protect", "ctx": 1, "msg": gen_inner(rng, True), "rid": 2, "kc": "default", "out": 5, "rout": 5}]
            elif j < 0.8: ops += [{"op": "tamper", "src": 3, "t": ["code", rng.choice([0, 1, 2, 31, 32, 63, 192, 255])], "out": 5}, {"op": "unprotect", "ctx": 0, "src": 5, "rid": 1, "rout": 6}]
            else: ops += [{"op": "tamper", "src": 1, "t": ["code", rng.choice([0, 1, 3, 4, 6, 7, 31, 32, 63, 64, 69, 192, 255])], "out": 5}, {"op": "unprotect", "ctx": 1, "src": 5, "rid": None, "rout": 6}]
            extra["precond"] = "caller passes a request_id / code combination the stack never produces"
        d = {"ctxs": [a, b], "ops": ops}; d.update(extra); return d
    def g_echo(self, rng, aes):
        """server context with echo_recovery set (B.1.2 recovery): window uninitialised or not; request without / with wrong / with right Echo, 4.01 + Echo
        reply, answered request, response to it, replays; what matters here: the request identifiers handed on must not offer the request's nonce for reuse
        unless the number was checked against an initialised window (oscore.py:1300-1305)"""
        a, b = gen_pair(rng, aes); a["seq"] = min(a["seq"], 2 ** 40 - 10); b["seq"] = min(b["seq"], 2 ** 40 - 10)
        echo = bytes(rng.randrange(256) for _ in range(rng.choice([1, 8, 8, 12]))).hex(); b["echo"] = echo
        uninit = rng.random() < 0.7
        if uninit: b["window"] = None
        def req(e):
            m = gen_inner(rng, True, observe=None); m["opts"] = [o for o in m["opts"] if o[0] != 252]
            if e is not None: m["opts"] = sorted(m["opts"] + [[252, e]], key=lambda o: o[0])
            return m
        ops = []; slot = [0]
        def send(e, src=None):
            s = slot[0] = slot[0] + 10
            if src is None: ops.append({"op": "protect", "ctx": 0, "msg": req(e), "rid": None, "kc": "default", "out": s, "rout": s}); src = s
            ops.append({"op": "unprotect", "ctx": 1, "src": src, "rid": None, "rout": s + 1, "out401": s + 2})
            return s
        s1 = send(rng.choice([None, None, "00" * 8, echo[:-2] + "ff"]))
        ops.append({"op": "unprotect", "ctx": 0, "src": s1 + 2, "rid": s1, "rout": s1 + 3})         # the client reads the 4.01 (skipped if the request was accepted)
        ops.append({"op": "protect", "ctx": 1, "msg": gen_inner(rng, False), "rid": s1 + 1, "out": s1 + 4, "rout": s1 + 4})   # a response under the identifiers handed on
        ops.append({"op": "unprotect", "ctx": 0, "src": s1 + 4, "rid": s1, "rout": s1 + 5})
        s2 = send(echo)                                                                             # the request repeated with the Echo value
        ops.append({"op": "protect", "ctx": 1, "msg": gen_inner(rng, False), "rid": s2 + 1, "out": s2 + 4, "rout": s2 + 4})
        ops.append({"op": "unprotect", "ctx": 0, "src": s2 + 4, "rid": s2, "rout": s2 + 5})
        if rng.random() < 0.7: send(None, src=s2)                                                    # replays: decrypted (echo_recovery set), then refused
        if rng.random() < 0.7: send(None, src=s1)
        if rng.random() < 0.5:
            s3 = send(None); ops.append({"op": "protect", "ctx": 1, "msg": gen_inner(rng, False), "rid": s3 + 1, "out": s3 + 4, "rout": s3 + 4})
            ops.append({"op": "unprotect", "ctx": 0, "src": s3 + 4, "rid": s3, "rout": s3 + 5})
        return {"ctxs": [a, b], "ops": ops}
    def g_proxy(self, rng, aes):
        """requests carrying Proxy-Uri: _split_message must keep scheme / host / port outside and move path / query inside (oscore.py:1150-1158, 1178-1179)"""
        a, b = gen_pair(rng, aes); a["seq"] = min(a["seq"], 2 ** 40 - 4)
        host = rng.choice(["h.example", "proxy-target.example.org", "a"]); port = rng.choice(["", "", ":61616", ":5683"]); scheme = rng.choice(["coap", "coap", "coaps", "coap+tcp"])
        path = "".join("/" + "".join(rng.choice("abcdefghijklmnopqrstuvwxyz0123456789") for _ in range(rng.choice([6, 8, 12]))) for _ in range(rng.randint(0, 3)))
        query = "&".join("".join(rng.choice("abcdefghijklmnopqrstuvwxyz") for _ in range(7)) + "=" + "".join(rng.choice("0123456789") for _ in range(6)) for _ in range(rng.randint(0, 2)))
        uri = "%s://%s%s%s%s" % (scheme, host, port, path, "?" + query if query else "")
        m = gen_inner(rng, True); m["opts"] = sorted([o for o in m["opts"] if o[0] not in (3, 7, 11, 15, 39)] + [[35, uri.encode().hex()]], key=lambda o: o[0])
        ops = [{"op": "protect", "ctx": 0, "msg": m, "rid": None, "kc": "default", "out": 1, "rout": 1}, {"op": "unprotect", "ctx": 1, "src": 1, "rid": None, "rout": 2}]
        return {"ctxs": [a, b], "ops": ops, "proxy": {"scheme": scheme, "host": host, "port": port[1:], "path": [s for s in path.split("/")[1:]], "query": query.split("&") if query else []}}
    def g_replay(self, rng, aes):
        """several requests on one pair of contexts, some delivered twice or out of order"""
        a, b = gen_pair(rng, aes); a["seq"] = min(a["seq"], 2 ** 40 - 8); ops = []; n = rng.randint(2, 5)
        for i in range(n):
            ops.append({"op": "protect", "ctx": 0, "msg": gen_inner(rng, True), "rid": None, "kc": "default", "out": i + 1, "rout": i + 1})
        order = [rng.randrange(n) for _ in range(n + 2)]
        for j, i in enumerate(order):
            ops.append({"op": "unprotect", "ctx": 1, "src": i + 1, "rid": None, "rout": 20 + j})
        return {"ctxs": [a, b], "ops": ops}

    # ---------------------------------------------------------------- implementation
    def impl(self, stream, inp):
        import aiocoap, aiocoap.oscore as o
        ctxs = [make_ctx(s) for s in inp["ctxs"]]
        aes = stream.startswith("aes_")
        msgs, rids, out = {}, {}, []
        for op in inp["ops"]:
            k = op["op"]
            if k == "protect":
                if op["rid"] is not None and op["rid"] not in rids: out.append("skip"); continue
                c = ctxs[op["ctx"]]; m = op["msg"]
                try:
                    msg = build_message(m["code"], [(n, H(v)) for n, v in m["opts"]], H(m["payload"]))
                    kc = op.get("kc", "default"); kw = {} if kc == "default" else {"kid_context": False} if kc == "off" else {"kid_context": H(kc)}
                    p, r = c.protect(msg, None if op["rid"] is None else rids[op["rid"]], **kw)
                except Exception as e:
                    out.append(exn_name(e)); continue
                p.mtype = aiocoap.CON; p.mid = 0x1234; p.token = b"\xaa"
                res = {"k": "P", "code": int(p.code), "opts": canon_opts(p), "payload": p.payload.hex(), "rid": canon_rid(r), "seq": c.sender_sequence_number, "wire": p.encode().hex()}
                msgs[op["out"]] = {"code": res["code"], "opts": res["opts"], "payload": res["payload"]}; rids[op["rout"]] = r
                out.append(res)
            elif k == "tamper":
                if op["src"] not in msgs: out.append("skip"); continue
                t = apply_tamper(op["t"], msgs[op["src"]]); msgs[op["out"]] = t
                out.append(dict(t, k="T"))
            elif k == "forge":
                if op["rid"] is not None and op["rid"] not in rids: out.append("skip"); continue
                try: t = self._forge(ctxs[op["ctx"]], None if op["rid"] is None else rids[op["rid"]], None if op["piv"] is None else H(op["piv"]), H(op["pt"]))
                except Exception as e: out.append(exn_name(e)); continue
                msgs[op["out"]] = t; out.append(dict(t, k="T"))
            elif k == "unprotect":
                if op["src"] not in msgs or (op["rid"] is not None and op["rid"] not in rids): out.append("skip"); continue
                c = ctxs[op["ctx"]]; m = msgs[op["src"]]
                wire_msg = build_message(m["code"], [(n, H(v)) for n, v in m["opts"]], H(m["payload"]))
                wire_msg.mtype = aiocoap.CON; wire_msg.mid = 0x1234; wire_msg.token = b"\xaa"
                incoming = aiocoap.Message.decode(wire_msg.encode(), "peer")
                try:
                    u, r = c.unprotect(incoming, None if op["rid"] is None else rids[op["rid"]])
                except o.ReplayErrorWithEcho as e:
                    # the 4.01 + Echo the site wrapper would send (oscore.py:154-160), protected with the identifiers the exception carries
                    try:
                        m401 = e.to_message()
                        res = {"k": "E", "rid": canon_rid(e.request_id), "code": int(m401.code), "opts": canon_opts(m401), "payload": m401.payload.hex(), "seq": c.sender_sequence_number}
                    except Exception as e2:
                        out.append(exn_name(e2)); continue
                    if op.get("out401") is not None: msgs[op["out401"]] = {"code": res["code"], "opts": res["opts"], "payload": res["payload"]}
                    rids[op["rout"]] = e.request_id; out.append(res); continue
                except Exception as e:
                    out.append(exn_name(e)); continue
                w = c.recipient_replay_window
                obs = u.opt.observe
                res = {"k": "U", "code": int(u.code), "observe": obs, "opts": [x for x in self._canon_opts_no_observe(u)], "payload": u.payload.hex(), "rid": canon_rid(r),
                       "window": [w._index, w._bitfield] if w.is_initialized() else None}
                rids[op["rout"]] = r; out.append(res)
        self._impl_cache[fw.jdump([stream, inp])] = out
        return out
    def _canon_opts_no_observe(self, u):
        return [[int(o.number), o.encode().hex()] for o in u.opt.option_list() if int(o.number) != 6]
    def _forge(self, c, rid, own_piv, plaintext):
        """harness-side mirror of Model/C11.forge, built from the real helper methods"""
        import aiocoap.oscore as o
        alg = c.alg_aead
        if rid is None:
            piv = own_piv if own_piv is not None else b"\0"
            r2 = o.RequestIdentifiers(c.sender_id, piv, False, 2)
            unprot = {o.COSE_PIV: piv, o.COSE_KID: c.sender_id}
            if c.id_context is not None: unprot[o.COSE_KID_CONTEXT] = c.id_context
            od, _ = c._compress({}, unprot, b""); nonce = c._construct_nonce(piv, c.sender_id, alg); code = 2
        else:
            r2 = rid; unprot = {}
            if own_piv is not None: unprot[o.COSE_PIV] = own_piv
            od, _ = c._compress({}, unprot, b"")
            nonce = c._construct_nonce(own_piv, c.sender_id, alg) if own_piv is not None else c._construct_nonce(rid.partial_iv, rid.kid, alg)
            code = int(rid.code_style.response)
        m = build_message(code, [], b"")
        aad = o.SymmetricEncryptionAlgorithm._build_encrypt0_structure({}, c._extract_external_aad(m, r2, True))
        return {"code": code, "opts": [[9, od.hex()]], "payload": alg.encrypt(plaintext, aad, c.sender_key, nonce).hex()}

    # ---------------------------------------------------------------- model
    def model(self, stream, inp):
        if stream.endswith("_echo"): return None      # oracle-only: Echo recovery is C12's model (here echo_recovery = None)
        ctxs = glist(["(%s, %s)" % (gz(i), g_ctx(s)) for i, s in enumerate(inp["ctxs"])])
        return "run_packed sym_aead (Build_env %s [] []) %s" % (ctxs, glist([g_op(o) for o in inp["ops"]]))
    def decode(self, stream, inp, p):
        aes = stream.startswith("aes_")
        cached = self._impl_cache.get(fw.jdump([stream, inp])) if aes else None
        def raw(x):
            if x.name != "PB": raise ValueError("model produced a byte outside 0..255")
            n, ws = x.args
            return b"".join(w.to_bytes(min(8, n - 8 * i), "big") for i, w in enumerate(ws))
        def hx(x): return raw(x).hex()
        def opts(l): return [[n, hx(v)] for n, v in l]
        def optv(x): return None if isinstance(x, fw.Ctor) and x.name == "None" else x.args[0]
        out = []
        for r in p:
            if r.name == "CSkip": out.append("skip")
            elif r.name == "CExn":
                e = r.args[0]
                out.append("exn:" + ("NotAProtectedMessage" if e.name == "OtherError" else e.name))
            elif r.name == "CTampered":
                code, os_, pay = r.args; d = {"k": "T", "code": code, "opts": opts(os_), "payload": hx(pay)}
                if aes: self._copy_unpredicted(d, cached, len(out), ("payload",))
                out.append(d)
            elif r.name == "CProtected":
                code, os_, pay, kid, piv, reuse, sreq, sresp, seq = r.args
                d = {"k": "P", "code": code, "opts": opts(os_), "payload": hx(pay), "rid": [hx(kid), hx(piv), reuse, [sreq, sresp]], "seq": seq}
                d["wire"] = encode_coap(code, [(n, raw(v)) for n, v in os_], raw(pay)).hex()
                if aes: self._copy_unpredicted(d, cached, len(out), ("payload", "wire"))
                out.append(d)
            elif r.name == "CUnprotected":
                code, obs, os_, pay, kid, piv, reuse, sreq, sresp, w = r.args; w = optv(w)
                out.append({"k": "U", "code": code, "observe": optv(obs), "opts": opts(os_), "payload": hx(pay), "rid": [hx(kid), hx(piv), reuse, [sreq, sresp]],
                            "window": None if w is None else list(w)})
        return out
    def _copy_unpredicted(self, d, cached, i, fields):
        """aes_* streams: the model (symbolic AEAD, ideal KDF) does not predict ciphertext bytes; those fields are taken from the
        implementation's result so that the comparison covers everything else and the oracle still sees the real bytes"""
        for f in fields: d.pop(f, None)
        if cached is not None and i < len(cached) and isinstance(cached[i], dict) and cached[i].get("k") == d["k"]:
            for f in fields:
                if f in cached[i]: d[f] = cached[i][f]

    # ---------------------------------------------------------------- oracle: the property on the implementation's behaviour
    @staticmethod
    def _keys_match(aes, R, S):
        """does R's recipient key equal S's sender key (sym: literally; aes: same inputs to the KDF)"""
        if aes:
            f = lambda c, role: (c["secret"], c["salt"], c["idctx"], c["algname"], c.get("hash", "sha256"), role)
            return f(R, R["rid"]) == f(S, S["sid"])
        return R["rkey"] == S["skey"] and R["civ"] == S["civ"]
    def oracle(self, stream, inp, res):
        if isinstance(res, dict) and "harness_exception" in res: return ("C11:crash:" + res["where"], "implementation raised %s: %s" % (res["harness_exception"], res.get("text")))
        aes = stream.startswith("aes_"); ctxs = inp["ctxs"]; precond = inp.get("precond")
        seqs = [c["seq"] for c in ctxs]                      # the oracle's own view of each sender counter
        wins = [None if c["window"] is None else {"index": c["window"][0], "bits": c["window"][1]} for c in ctxs]
        def fresh(ci, n):
            w = wins[ci]
            if w is None: return False
            return n >= w["index"] and (n >= w["index"] + 32 or not (w["bits"] >> (n - w["index"])) & 1)
        def strike(ci, n):
            w = wins[ci]; over = n - (w["index"] + 31)
            if over > 0: w["index"] += over; w["bits"] >>= over
            w["bits"] |= 1 << (n - w["index"])
        msgs, rids = {}, {}
        for oi, (op, r) in enumerate(zip(inp["ops"], res)):
            k = op["op"]
            if r == "skip": continue
            if k == "protect":
                S = ctxs[op["ctx"]]; inner = op["msg"]; is_req = 1 <= inner["code"] < 32
                rid_in = rids.get(op["rid"]) if op["rid"] is not None else None
                proxy_uri = next((H(x) for n, x in inner["opts"] if n == 35), None) if is_req else None
                if isinstance(r, str):
                    if r == "exn:ContextUnavailable" and seqs[op["ctx"]] >= 2 ** 40 - 1: continue      # exhausted: refusing is the required behaviour
                    if precond: continue
                    if proxy_uri is not None: return ("C11:protect-exception:%s:proxy-uri" % r[4:], "protect raised %s for a request carrying Proxy-Uri %s (op %d)" % (r, proxy_uri.decode(), oi))
                    return ("C11:protect-exception:" + r[4:], "protect raised %s for an admissible message (op %d)" % (r, oi))
                if seqs[op["ctx"]] >= 2 ** 40 - 1 and not (rid_in and rid_in["reusable"]):
                    return ("C11:sequence-number-exhausted", "protect issued a Partial IV although the sender sequence number %d is exhausted" % seqs[op["ctx"]])
                v, kb, tb, ivb = alg_params(S)
                try: code, oopts, pay = parse_coap(H(r["wire"]))
                except Exception: return ("C11:outer-unparsable", "serialised outer message is not a CoAP datagram (op %d)" % oi)
                iopts = [(n, H(x)) for n, x in inner["opts"]]
                pscheme = pport = None
                if proxy_uri is not None:
                    # RFC 8613 4.1.3.2 / oscore.py:1150-1158: Proxy-Uri is split; scheme, host, port stay outside, path and query go inside
                    pscheme, phost, pport, ppath, pquery = split_proxy_uri(proxy_uri)
                    iopts = sorted([(n, x) for n, x in iopts if n not in (3, 7, 35, 39)] + [(3, phost)] + [(11, s) for s in ppath] + [(15, q) for q in pquery], key=lambda o: o[0])
                iobs = next((x for n, x in iopts if n == 6), None); ihost = next((x for n, x in iopts if n == 3), None)
                # --- fixed outer codes
                if is_req: want = 5 if iobs is not None else 2
                else: want = rid_in["style"][1] if rid_in else None
                if code not in (2, 5, 68, 69) or (want is not None and code != want):
                    return ("C11:outer-code", "outer code %d (expected %s) for inner code %d (op %d)" % (code, want, inner["code"], oi))
                # --- only OSCORE, host/proxy routing options and Observe outside
                nums = [n for n, _ in oopts]
                for n in nums:
                    if n not in OUTER_ALLOWED: return ("C11:outer-option:%d" % n, "option %d appears in the outer message (op %d)" % (n, oi))
                if nums.count(9) != 1: return ("C11:outer-option:oscore-count", "%d OSCORE options in the outer message" % nums.count(9))
                ohost = next((x for n, x in oopts if n == 3), None); oobs = next((x for n, x in oopts if n == 6), None)
                if ohost != (ihost if is_req else None): return ("C11:outer-uri-host", "outer Uri-Host %r, message had %r" % (ohost, ihost))
                if is_req and oobs != iobs: return ("C11:outer-observe", "outer Observe %r, message had %r" % (oobs, iobs))
                if proxy_uri is not None:
                    oport = next((int.from_bytes(x, "big") for n, x in oopts if n == 7), None); oscheme = next((x for n, x in oopts if n == 39), None)
                    if oscheme != pscheme: return ("C11:outer-proxy-scheme", "outer Proxy-Scheme %r for Proxy-Uri %s (op %d)" % (oscheme, proxy_uri.decode(), oi))
                    if oport != pport and not (oport is None and pport in (5683, 5684)): return ("C11:outer-uri-port", "outer Uri-Port %r for Proxy-Uri %s (op %d)" % (oport, proxy_uri.decode(), oi))
                elif any(n in (7, 39) for n in nums): return ("C11:outer-option:%d" % next(n for n in nums if n in (7, 39)), "Uri-Port / Proxy-Scheme outside although the request has no Proxy-Uri (op %d)" % oi)
                # --- what the OSCORE option says
                f = parse_oscore_option(next(x for n, x in oopts if n == 9))
                if f is None: return ("C11:option-malformed", "protect produced a malformed OSCORE option (op %d)" % oi)
                reuse = bool(rid_in and rid_in["reusable"])
                if reuse: own_piv = None
                else:
                    own_piv = minbytes(seqs[op["ctx"]]) or b"\0"; seqs[op["ctx"]] += 1
                kc = op.get("kc", "default")
                want_f = dict(piv=own_piv, kid=H(S["sid"]) if (is_req or S.get("send_kid")) else None,
                              ctx=(None if not is_req or kc == "off" else (None if S["idctx"] is None else H(S["idctx"])) if kc == "default" else H(kc)), group=False)
                if f != want_f: return ("C11:option-fields", "OSCORE option carries %r, expected %r (op %d)" % (f, want_f, oi))
                bind = (H(S["sid"]), own_piv) if is_req else (H(rid_in["kid"]), H(rid_in["piv"]))
                nonce_id, nonce_piv = (H(S["sid"]), own_piv) if own_piv is not None else (H(rid_in["kid"]), H(rid_in["piv"]))
                exp_inner = (inner["code"], [(n, x) for n, x in iopts if not (is_req and n in CLASS_U)], H(inner["payload"]))
                exp_pt = bytes([inner["code"]]) + encode_options(exp_inner[1]) + (b"\xff" + exp_inner[2] if exp_inner[2] else b"")
                if not aes:
                    # the symbolic ciphertext shows key, nonce, AAD and plaintext: compare with RFC 8613 5.2 / 5.4 computed independently
                    key, nonce, aad, pt, tag = parse_sym(pay)
                    if key != H(S["skey"]): return ("C11:key", "encrypted under a key that is not the sender key (op %d)" % oi)
                    if len(nonce_id) <= ivb - 6 and not precond:
                        if nonce != rfc_nonce(H(S["civ"]), ivb, nonce_id, nonce_piv): return ("C11:nonce", "nonce %s differs from RFC 8613 5.2 for id %s piv %s (op %d)" % (nonce.hex(), nonce_id.hex(), nonce_piv.hex(), oi))
                    if aad != rfc_aad(v, bind[0], bind[1]): return ("C11:aad", "AAD %s differs from RFC 8613 5.4 for request kid %s piv %s (op %d)" % (aad.hex(), bind[0].hex(), bind[1].hex(), oi))
                    if pt != exp_pt or tag != pt: return ("C11:plaintext", "plaintext is not code | class-E options | payload of the message (op %d)" % oi)
                else:
                    if len(pay) != len(exp_pt) + tb: return ("C11:ciphertext-length", "ciphertext has %d bytes for %d bytes of plaintext and a %d-byte tag (op %d)" % (len(pay), len(exp_pt), tb, oi))
                    wire = H(r["wire"])
                    for secret in [exp_inner[2]] + [x for n, x in exp_inner[1] if n != 6]:
                        if len(secret) >= 6 and secret in wire: return ("C11:plaintext-leak", "inner data %s appears in the outer message (op %d)" % (secret.hex(), oi))
                if r["rid"][:2] != [bind[0].hex(), bind[1].hex()]: return ("C11:request-id", "protect returned identifiers %r, expected %r" % (r["rid"][:2], [bind[0].hex(), bind[1].hex()]))
                cur = {"code": r["code"], "opts": r["opts"], "payload": r["payload"]}
                msgs[op["out"]] = {"sender": op["ctx"], "inner": exp_inner, "is_req": is_req, "bind": bind, "own_piv": own_piv, "cur": cur, "orig": cur, "forged": False, "tampers": [],
                                   "inner_obs": None if iobs is None else int.from_bytes(iobs, "big")}
                if is_req: rids[op["rout"]] = {"kid": bind[0].hex(), "piv": bind[1].hex(), "reusable": False, "style": r["rid"][3]}
                else:
                    rid_in["reusable"] = False; rids[op["rout"]] = rid_in
            elif k == "tamper":
                if isinstance(r, str) or op["src"] not in msgs: continue
                m = dict(msgs[op["src"]]); m["cur"] = {"code": r["code"], "opts": r["opts"], "payload": r["payload"]}; m["tampers"] = m["tampers"] + [op["t"]]
                msgs[op["out"]] = m
            elif k == "forge":
                if isinstance(r, str): continue
                msgs[op["out"]] = {"forged": True, "cur": {"code": r["code"], "opts": r["opts"], "payload": r["payload"]}, "tampers": [], "sender": op["ctx"]}
            elif k == "unprotect":
                if op["src"] not in msgs: continue
                R = ctxs[op["ctx"]]; prov = msgs[op["src"]]; cur = prov["cur"]
                rid_in = rids.get(op["rid"]) if op["rid"] is not None else None
                is_resp_call = op["rid"] is not None
                curopt = next((H(x) for n, x in cur["opts"] if n == 9), None)
                curobs = next((int.from_bytes(H(x), "big") for n, x in cur["opts"] if n == 6), None)
                f = parse_oscore_option(curopt) if curopt is not None else None
                # what an untouched message from a matching peer would be expected to do
                expect_accept = False
                if not prov["forged"] and not precond and all(t[0] == "setopt" and t[1] in (3, 6) for t in prov["tampers"]):
                    S = ctxs[prov["sender"]]
                    expect_accept = (self._keys_match(aes, R, S) and alg_params(R) == alg_params(S) and R["rid"] == S["sid"] and R["idctx"] == S["idctx"]
                                     and prov["is_req"] != is_resp_call
                                     and (not is_resp_call or (rid_in is not None and (H(rid_in["kid"]), H(rid_in["piv"])) == prov["bind"]))
                                     and (is_resp_call or fresh(op["ctx"], int.from_bytes(prov["own_piv"], "big"))))
                inner_echo = None if prov["forged"] else next((x.hex() for n, x in prov["inner"][1] if n == 252), None)
                n_req = int.from_bytes(f["piv"], "big") if (f is not None and f["piv"] is not None and not is_resp_call) else None
                if expect_accept is False and not prov["forged"] and not precond and not prov["tampers"] and not is_resp_call and wins[op["ctx"]] is None and R.get("echo") is not None:
                    S = ctxs[prov["sender"]]
                    matching = self._keys_match(aes, R, S) and alg_params(R) == alg_params(S) and R["rid"] == S["sid"] and R["idctx"] == S["idctx"] and prov["is_req"]
                    if matching and inner_echo == R["echo"]: expect_accept = True
                    if matching and inner_echo != R["echo"] and not (isinstance(r, dict) and r["k"] == "E"):
                        return ("C11:echo-challenge-missing", "a genuine request to a context with uninitialised window and echo_recovery was answered with %r instead of 4.01 + Echo (op %d)" % (r if isinstance(r, str) else r["k"], oi))
                if isinstance(r, dict) and r["k"] == "E":
                    # ReplayErrorWithEcho: the identifiers it carries (used for the 4.01 and remembered by the caller) must not offer the request's nonce for reuse
                    if wins[op["ctx"]] is not None or R.get("echo") is None or prov["forged"]: return ("C11:echo-challenge-unexpected", "4.01 + Echo although the window is initialised / no echo_recovery (op %d)" % oi)
                    if r["rid"][2]: return ("C11:nonce-reuse-offered-for-replay", "ReplayErrorWithEcho carries identifiers with can_reuse_nonce=True for Partial IV %s that was never checked against a window (op %d)" % (r["rid"][1], oi))
                    f401 = parse_oscore_option(next((H(x) for n, x in r["opts"] if n == 9), b""))
                    own = minbytes(seqs[op["ctx"]]) or b"\0"
                    if f401 is None or f401["piv"] != own or r["seq"] != seqs[op["ctx"]] + 1:
                        return ("C11:nonce-reuse-offered-for-replay", "the 4.01 + Echo reply carries Partial IV %r (sender counter %d -> %d): it must use a fresh sequence number of its own (op %d)" % (f401 and f401["piv"], seqs[op["ctx"]], r["seq"], oi))
                    seqs[op["ctx"]] += 1
                    rids[op["rout"]] = {"kid": r["rid"][0], "piv": r["rid"][1], "reusable": False, "style": r["rid"][3]}
                    if op.get("out401") is not None:
                        cur401 = {"code": r["code"], "opts": r["opts"], "payload": r["payload"]}
                        msgs[op["out401"]] = {"sender": op["ctx"], "inner": (129, [(252, H(R["echo"]))], b""), "is_req": False, "bind": (H(r["rid"][0]), H(r["rid"][1])), "own_piv": own,
                                              "cur": cur401, "orig": cur401, "forged": False, "tampers": [], "inner_obs": None}
                    continue
                if isinstance(r, str):
                    name = r[4:]
                    if name not in ALLOWED_ERRORS:
                        if precond or (prov["forged"] and name in ("UnparsableMessage", "IndexError")): continue
                        if (1 <= cur["code"] < 32) != (not is_resp_call) or (not is_resp_call and cur["code"] not in (2, 5)):
                            continue    # callers dispatch by code class and reject other request codes before unprotect (oscore_sitewrapper.py:72)
                        return ("C11:unprotect-exception:%s%s" % (name, ":group-flag" if curopt and curopt[0] & 0x20 else ""),
                                "unprotect raised %s (not a ProtectionInvalid) for OSCORE option %s (op %d)" % (name, None if curopt is None else curopt.hex(), oi))
                    if expect_accept: return ("C11:roundtrip-rejected:" + name, "an untouched message from the matching context was rejected with %s (op %d)" % (name, oi))
                    continue
                # ---- a message came out
                reusable = False
                if n_req is not None:
                    n_ = n_req
                    if wins[op["ctx"]] is None:
                        # uninitialised window: acceptance needs this process's Echo value inside the request (C12); the window starts at this number
                        if not precond and (R.get("echo") is None or inner_echo != R["echo"]):
                            return ("C11:accepted-with-uninitialised-window", "a request was accepted although the replay window is uninitialised and it does not carry the context's Echo value (op %d)" % oi)
                        wins[op["ctx"]] = {"index": n_, "bits": 1}
                    elif fresh(op["ctx"], n_): strike(op["ctx"], n_); reusable = True
                    elif not precond: return ("C11:replayed-request-accepted", "a request with Partial IV %d was accepted although that number was already used or lies below the replay window (op %d)" % (n_, oi))
                    # can_reuse_nonce of the identifiers handed on = "this number was checked against an initialised window and was unseen" (oscore.py:1300-1305)
                    if r["rid"][2] and not reusable and not precond:
                        return ("C11:nonce-reuse-offered-for-replay", "unprotect handed on identifiers with can_reuse_nonce=True for Partial IV %d although the number was not validated by the replay window (op %d)" % (n_, oi))
                elif is_resp_call and f is not None and f["piv"] is not None and wins[op["ctx"]] is None and R.get("echo") is not None and not prov["forged"]:
                    wins[op["ctx"]] = {"index": int.from_bytes(f["piv"], "big"), "bits": 1}      # a bound response with its own Partial IV initialises the window (oscore.py:1408-1422)
                rids[op["rout"]] = rid_in if is_resp_call else {"kid": r["rid"][0], "piv": r["rid"][1], "reusable": reusable, "style": r["rid"][3]}
                if prov["forged"]: continue
                S = ctxs[prov["sender"]]; orig = prov["orig"]
                if curopt is None or f is None: return ("C11:accepted-malformed-option", "a message with OSCORE option %r was accepted (op %d)" % (curopt, oi))
                if f["group"]: return ("C11:accepted-group-flag", "a message with the group flag was accepted by a non-group context")
                if not self._keys_match(aes, R, S): return ("C11:accepted-with-foreign-keys", "a message protected by context %d was accepted by context %d which has other keys (op %d)" % (prov["sender"], op["ctx"], oi))
                if alg_params(R)[0] != alg_params(S)[0]: return ("C11:accepted-foreign-algorithm", "accepted although the algorithm in the AAD differs (op %d)" % oi)
                if cur["payload"] != orig["payload"]: return ("C11:accepted-modified-ciphertext", "a message whose ciphertext was changed was accepted (op %d)" % oi)
                fo = parse_oscore_option(next(H(x) for n, x in orig["opts"] if n == 9))
                def eff(g): return (g["kid"] if g["kid"] is not None else H(R["rid"]), g["ctx"] if g["ctx"] is not None else (None if R["idctx"] is None else H(R["idctx"])))
                def pivkey(g): return g["piv"] if prov["is_req"] else (None if g["piv"] is None else int.from_bytes(g["piv"], "big"))
                if pivkey(f) != pivkey(fo): return ("C11:accepted-modified-piv", "Partial IV changed from %r to %r and the message was accepted (op %d)" % (fo["piv"], f["piv"], oi))
                if eff(f)[0] != eff(fo)[0]: return ("C11:accepted-modified-kid", "KID changed from %r to %r and the message was accepted (op %d)" % (fo["kid"], f["kid"], oi))
                if eff(f)[1] != eff(fo)[1]: return ("C11:accepted-modified-idcontext", "ID context changed from %r to %r and the message was accepted (op %d)" % (fo["ctx"], f["ctx"], oi))
                # ---- strict reading of "any change to the partial IV, key ID or ID context in the OSCORE option makes unprotection fail":
                # the fields of the accepted option must be the sender's, byte for byte and in presence (open known findings, see notes/C11.md)
                if build_oscore_option(f["piv"], f["kid"], f["ctx"]) != curopt:
                    return ("C11:accepted-option-change:trailing-bytes", "OSCORE option %s (sent: %s) carries bytes beyond its fields and the message was accepted (op %d)" % (curopt.hex(), next(x for n, x in orig["opts"] if n == 9), oi))
                if f["piv"] != fo["piv"]: return ("C11:accepted-option-change:piv-zero-padded", "Partial IV re-encoded from %s to %s and the message was accepted (op %d)" % (fo["piv"].hex(), f["piv"].hex(), oi))
                if f["kid"] != fo["kid"]:
                    return ("C11:accepted-option-change:kid-%s" % ("removed" if f["kid"] is None else "added"), "KID field changed from %r to %r (same effective key id) and the message was accepted (op %d)" % (fo["kid"], f["kid"], oi))
                if f["ctx"] != fo["ctx"]:
                    return ("C11:accepted-option-change:idcontext-%s" % ("removed" if f["ctx"] is None else "added"), "ID context field changed from %r to %r (same effective id context) and the message was accepted (op %d)" % (fo["ctx"], f["ctx"], oi))
                if prov["is_req"] == is_resp_call: return ("C11:accepted-wrong-direction", "a %s was accepted as a %s" % ("request" if prov["is_req"] else "response", "response" if is_resp_call else "request"))
                if is_resp_call and (H(rid_in["kid"]), H(rid_in["piv"])) != prov["bind"]:
                    return ("C11:accepted-foreign-request-binding", "a response to request (kid %s, piv %s) was accepted for request (kid %s, piv %s) (op %d)" % (
                        prov["bind"][0].hex(), prov["bind"][1].hex(), rid_in["kid"], rid_in["piv"], oi))
                # ---- and it must be the original message
                code, eopts, pl = prov["inner"]
                if r["code"] != code: return ("C11:roundtrip-mismatch:code", "unprotected code %d, original %d (op %d)" % (r["code"], code, oi))
                if r["payload"] != pl.hex(): return ("C11:roundtrip-mismatch:payload", "unprotected payload differs from the original (op %d)" % oi)
                if r["opts"] != [[n, x.hex()] for n, x in eopts if n != 6]: return ("C11:roundtrip-mismatch:options", "unprotected options %r, original %r (op %d)" % (r["opts"], [[n, x.hex()] for n, x in eopts if n != 6], oi))
                if prov["is_req"]:
                    # the inner Observe of a request comes out when the outer one (as received) agrees with it — RFC 8613 4.1.3.5.1: both carry 0 or 1
                    want_obs = prov["inner_obs"] if curobs == prov["inner_obs"] else None
                    if want_obs not in (None, 0) and r["observe"] is None:
                        return ("C11:roundtrip-mismatch:observe:request-nonzero-dropped", "request Observe %d (inner and outer) comes out without Observe (op %d)" % (want_obs, oi))
                    if curobs == 0 and prov["inner_obs"] not in (None, 0): want_obs = prov["inner_obs"]      # outer 0 / inner different: only reachable by tampering with the outer option; the code keeps the inner value
                elif curobs is not None: want_obs = -1 if f["piv"] is None else int.from_bytes(f["piv"], "big")
                else: want_obs = prov["inner_obs"]
                if r["observe"] != want_obs: return ("C11:roundtrip-mismatch:observe", "unprotected Observe %r, expected %r (op %d)" % (r["observe"], want_obs, oi))
                if not is_resp_call and r["rid"] != [R["rid"], f["piv"].hex(), reusable, [cur["code"], 68 if cur["code"] == 2 else 69]]:
                    return ("C11:request-id", "unprotect returned identifiers %r for kid %s piv %s" % (r["rid"], R["rid"], f["piv"].hex()))
        # ---- corpus cases carrying published test vectors (RFC 8613 appendix C): the outer message must be the published one
        for i, want in (inp.get("expect") or {}).items():
            got = res[int(i)]
            if not isinstance(got, dict) or got.get("opts") != want["opts"] or got.get("payload") != want["payload"]:
                return ("C11:rfc8613-vector-mismatch", "op %s produced %r, the test vector says %r" % (i, got if not isinstance(got, dict) else {k: got[k] for k in ("opts", "payload")}, want))
        # ---- non-interference: the two protect results of an `ni` scenario differ in nothing but the encrypted plaintext
        if "ni" in inp:
            i, j = inp["ni"]; a, b = res[i], res[j]
            if isinstance(a, dict) != isinstance(b, dict): return ("C11:outer-depends-on-inner:outcome", "one of two equivalent messages was protected, the other raised")
            if isinstance(a, dict):
                if a["code"] != b["code"]: return ("C11:outer-depends-on-inner:code", "outer codes %d / %d" % (a["code"], b["code"]))
                if a["opts"] != b["opts"]: return ("C11:outer-depends-on-inner:options", "outer options %r / %r" % (a["opts"], b["opts"]))
                if not aes:
                    pa, pb_ = parse_sym(H(a["payload"])), parse_sym(H(b["payload"]))
                    if pa[:3] != pb_[:3]: return ("C11:outer-depends-on-inner:key-nonce-aad", "key / nonce / AAD depend on the inner message")
                elif len(H(inp["ops"][i]["msg"]["payload"])) == len(H(inp["ops"][j]["msg"]["payload"])) and \
                        sum(len(x) for _, x in inp["ops"][i]["msg"]["opts"]) == sum(len(x) for _, x in inp["ops"][j]["msg"]["opts"]) and \
                        [n for n, _ in inp["ops"][i]["msg"]["opts"]] == [n for n, _ in inp["ops"][j]["msg"]["opts"]] and len(a["payload"]) != len(b["payload"]):
                    return ("C11:outer-depends-on-inner:length", "equally long inner messages give ciphertexts of %d / %d bytes" % (len(a["payload"]) // 2, len(b["payload"]) // 2))
        return None
    def nontrivial(self, stream, inp, res):
        if not isinstance(res, list): return None
        acc = sum(1 for op, r in zip(inp["ops"], res) if op["op"] == "unprotect" and isinstance(r, dict) and r["k"] == "U")
        rej = sum(1 for op, r in zip(inp["ops"], res) if op["op"] == "unprotect" and ((isinstance(r, str) and r.startswith("exn:")) or (isinstance(r, dict) and r["k"] == "E")))
        prot = sum(1 for op, r in zip(inp["ops"], res) if op["op"] == "protect" and isinstance(r, dict))
        ok = (acc >= 1 and rej >= 1) or acc >= 2 or ("ni" in inp and prot >= 2)
        return fw.jdump([stream, inp]) if ok else None

PROPERTY = C11()
