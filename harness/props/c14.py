"""C14 — NSTART=1: one open confirmable exchange per peer, FIFO backlog, none forgotten.

Correspondence of Model/C14.v with the real Context -> TokenManager -> MessageManager stack under the virtual
loop and the fake transport, on event scripts (submissions of CON/NON requests and raw CON/NON responses to several
remotes, ACK/RST/responses from the peers, timer firings, transport errors, cancellations), plus an independent
oracle that states the NSTART rules on what is observable: the datagrams on the wire and the completions of the
requests."""
import asyncio, heapq
import fw
from fw import gz, glist

CON, NON, ACK, RST = 0, 1, 2, 3
GET, CONTENT, EMPTY = 1, 69, 0
MT_KINDS = {0: "explicit CON", 1: "explicit NON", 4: "mtype None, tuning Reliable", 5: "mtype None, tuning Unreliable",
            6: "mtype None, no hint", 7: "mtype None, answering a NON request", 8: "mtype None, answering a CON request"}
def resolved(mt): return mt if mt in (0, 1) else (1 if mt in (5, 7) else 0)


# ------------------------------------------------------------------------------------------------ implementation driver
def _tag(payload):
    try: return payload.decode("ascii")
    except Exception: return "?"

def _tok_int(b): return int.from_bytes(b, "big")
def _tok_bytes(n): return n.to_bytes((n.bit_length() + 7) // 8, "big") if n else b""


class Driver:
    """Runs one event script against the real aiocoap objects. Everything it records is an observation of
    (a) what message_interface.send() was given, (b) how the request futures completed, (c) monitor calls,
    (d) exceptions leaving the calls the transports make, (e) which retransmission timer a `fire` fired."""
    def __init__(self, inp):
        import simloop, simnet, logging
        logging.disable(logging.CRITICAL)
        import aiocoap.messagemanager as _mm, aiocoap.tokenmanager as _tm
        from aiocoap.numbers.constants import TransportTuning
        self.simnet = simnet
        trace = self.trace = []
        class LFuture(asyncio.Future):
            tag = None
            def set_result(s, r):
                if s.tag is not None and not s.done(): trace.append(["deliver", s.tag])
                super().set_result(r)
            def set_exception(s, e):
                if s.tag is not None and not s.done():
                    trace.append(["fail", s.tag, (e if isinstance(e, type) else type(e)).__name__])
                super().set_exception(e)
        class Loop(simloop.VLoop):
            def create_future(s): return LFuture(loop=s)
        self.loop = loop = Loop()
        rand = list(inp.get("rand", []))
        class Rand:
            def __init__(s, v): s.v = v
            def randint(s, a, b): return s.v
            def uniform(s, a, b): return (rand.pop(0) / 1e6) if rand else a
            def random(s): return 0.0
        _mm.random = Rand(inp.get("mid0", 0)); _tm.random = Rand(inp.get("token0", 0))
        self.ctx, self.tman, self.mman, mi = simnet.make_stack(loop)
        seen = self.seen = set()
        refusing = self.refusing = set()
        mman = self.mman
        def send(m):
            # a transport that refuses the datagram synchronously: udp6's sendmsg raises OSError, the selector transport calls
            # error_received, which calls MessageManager.dispatch_error(exc, remote) -- all from inside send(); nothing on the wire
            if m.remote.name in refusing:
                import errno
                mman.dispatch_error(OSError(errno.ENETUNREACH, "Network is unreachable"), m.remote); return
            raw = m.encode(); rname = m.remote.name
            from aiocoap import Message
            d = Message.decode(raw)
            first = (rname, raw) not in seen; seen.add((rname, raw))
            # a confirmable datagram identical to an earlier one to the same remote is a retransmission
            trace.append(["tx", rname, int(d.mtype), int(d.code), d.mid, _tok_int(d.token), _tag(d.payload), int(d.mtype) == CON and not first])
        mi.send = send
        self.addrs = {}
        self.tunings = {}
        self.TransportTuning = TransportTuning
        self.requests = {}      # q -> Request
        self.pipes = {}         # id(pipe) -> q
        # server side: a site whose handlers do nothing by themselves; the script makes responder k put responses into its pipe
        from aiocoap import interfaces
        drv = self
        self.spipes = {}        # k -> the pipe TokenManager.process_request created;  id(pipe) -> k in self.skeys
        self.skeys = {}
        class Site(interfaces.Resource):
            async def render_to_pipe(s, pipe):
                await loop.create_future()          # until cancelled through the pipe's loss of interest
            async def render(s, request): raise NotImplementedError
            async def needs_blockwise_assembly(s, request): return False
        self.ctx.serversite = Site()
        real_render_to_pipe = self.ctx.render_to_pipe
        def render_to_pipe(pipe):
            k = int(pipe.request.payload.decode()[1:])
            drv.spipes[k] = pipe; drv.skeys[id(pipe)] = k
            real_render_to_pipe(pipe)
            pipe.on_interest_end(lambda k=k: trace.append(["ended", k]))     # non-interest callback: observes, changes nothing
        self.ctx.render_to_pipe = render_to_pipe

    def addr(self, r):
        if r not in self.addrs: self.addrs[r] = self.simnet.Addr(r)
        return self.addrs[r]

    def tuning(self, mt, maxre):
        k = (mt, maxre)
        if k not in self.tunings:
            rel = True if mt == 4 else False if mt == 5 else None
            self.tunings[k] = type("T", (self.TransportTuning,), {"MAX_RETRANSMIT": maxre, "reliability": rel})()
        return self.tunings[k]

    def guarded(self, f, *a):
        try:
            with self.loop.enter(): f(*a)
        except Exception as e:
            self.trace.append(["crash", type(e).__name__])
        self.loop.drain()

    def step(self, ev):
        import aiocoap
        from aiocoap import Message
        from aiocoap.numbers.types import Type
        k = ev[0]; loop = self.loop
        if k == "req":
            _, q, r, mt, maxre = ev
            m = Message(code=aiocoap.GET, payload=b"q%d" % q, transport_tuning=self.tuning(mt, maxre), _mtype=mt if mt in (0, 1) else None)
            m.remote = self.addr(r)
            with loop.enter(): req = self.ctx.request(m, handle_blockwise=False)
            req.response.tag = q
            self.requests[q] = req; self.pipes[id(req._pipe)] = q
            loop.drain()
        elif k == "raw":
            _, s, r, mt, tok, maxre = ev
            m = Message(code=aiocoap.CONTENT, payload=b"s%d" % s, transport_tuning=self.tuning(mt, maxre), _mtype=mt if mt in (0, 1) else None,
                        _token=_tok_bytes(tok))
            m.remote = self.addr(r)
            if mt in (7, 8): m.request = Message(code=aiocoap.GET, _mtype=NON if mt == 7 else CON)
            self.guarded(self.mman.send_message, m, lambda s=s: self.trace.append(["monitor", s]))
        elif k in ("empty", "resp"):
            if k == "empty": _, r, mt, mid = ev; m = Message(code=aiocoap.EMPTY, _mtype=mt, _mid=mid)
            else: _, r, mt, mid, tok = ev; m = Message(code=aiocoap.CONTENT, _mtype=mt, _mid=mid, _token=_tok_bytes(tok), payload=b"r")
            d = Message.decode(m.encode(), self.addr(r))
            self.guarded(self.mman.dispatch_message, d)
        elif k == "err":
            self.guarded(self.mman.dispatch_error, OSError(113, "No route to host"), self.addr(ev[1]))
        elif k == "fire":
            live = [t for t in loop._timers if not t[2]._cancelled]
            if live:
                due, seq, h = min(live, key=lambda t: (t[0], t[1]))
                try:
                    msg = h._callback.__defaults__[1]
                    self.trace.append(["fired", msg.remote.name, msg.mid])
                except Exception:
                    self.trace.append(["fired-unknown"])
                n = len(loop.exceptions)
                loop.fire_next()
                for c in loop.exceptions[n:]:
                    e = c.get("exception"); self.trace.append(["crash", type(e).__name__ if e is not None else "loop"])
        elif k == "adv":
            d = ev[1]; nd = loop.next_due()
            if d >= 0 and (nd is None or nd > loop.now_us() + d): loop.advance(d)
        elif k == "refuse":
            (self.refusing.add if ev[2] else self.refusing.discard)(ev[1])
        elif k == "serve":
            _, kk, r, tok, mt = ev
            m = Message(code=aiocoap.GET, _mtype=mt, _mid=(40000 + kk) & 0xFFFF, _token=_tok_bytes(tok), payload=b"k%d" % kk)
            self.guarded(self.tman.process_request, Message.decode(m.encode(), self.addr(r)))
        elif k == "serve_pb":
            # a CON request arriving as a datagram: dedup + piggy-back opportunity (EMPTY_ACK_DELAY timer) + process_request
            _, kk, r, tok, mid = ev
            m = Message(code=aiocoap.GET, _mtype=CON, _mid=mid, _token=_tok_bytes(tok), payload=b"k%d" % kk)
            self.guarded(self.mman.dispatch_message, Message.decode(m.encode(), self.addr(r)))
        elif k == "respond":
            _, j, kk, last, maxre = ev
            pipe = self.spipes.get(kk)
            if pipe is not None:
                m = Message(code=aiocoap.CONTENT, payload=b"p%d" % j, transport_tuning=self.tuning(6, maxre))
                self.guarded(pipe.add_response, m, bool(last))
        elif k == "cancel":
            req = self.requests.get(ev[1])
            if req is not None:
                with loop.enter(): ok = req.response.cancel()
                if ok: self.trace.append(["cancelled", ev[1]])
                loop.drain()
        else:
            raise ValueError("unknown event %r" % (ev,))

    def run(self, events):
        steps = []
        for ev in events:
            n = len(self.loop.exceptions)
            self.step(ev)
            if ev[0] != "fire":
                for c in self.loop.exceptions[n:]:
                    e = c.get("exception"); self.trace.append(["crash", type(e).__name__ if e is not None else "loop"])
            steps.append(list(self.trace)); del self.trace[:]
        mman, tman = self.mman, self.tman
        final = {
            "now": self.loop.now_us(),
            "exchanges": sorted([k[0].name, k[1]] for k in mman._active_exchanges),
            "backlogs": sorted([r.name, [_tag(m.payload) for m, _ in q]] for r, q in mman._backlogs.items()),
            "outgoing": [self.pipes.get(id(p), -1) for p in tman.outgoing_requests.values()],
            "next_mid": mman.message_id, "token": tman._token,
            "incoming": [self.skeys.get(id(p), -1) for p, _ in tman.incoming_requests.values()],
        }
        return {"steps": steps, "final": final}


def sub_tag(kind, n): return {"req": "q%d", "raw": "s%d", "respond": "p%d"}[kind] % n


# ------------------------------------------------------------------------------------------------ generator-side bookkeeping
class Sim:
    """Reference bookkeeping used ONLY to generate relevant events (which mid is awaiting its ACK at which remote,
    which token belongs to which request).  It never judges anything."""
    def __init__(s, mid0, token0, rand):
        s.mid = mid0; s.tok = token0; s.rand = list(rand); s.now = 0; s.seq = 0
        s.responder_of = {}
        s.ex = {}; s.q = {}; s.out = {}; s.mids = {}; s.fires_needed = 0; s.refusing = set(); s.served = {}
    def open(s, r, sub, mid, maxre):
        t = s.rand.pop(0) if s.rand else 2000000
        s.ex[r] = dict(mid=mid, due=s.now + t, seq=s.seq, timeout=t, counter=0, maxre=maxre, sub=sub); s.seq += 1
        s.q.setdefault(r, [])
    def submit(s, kind, n, r, mt, maxre):
        if kind == "req":
            s.tok = (s.tok + 1) % 2 ** 64; s.out[n] = (s.tok, r)
        mid = s.mid; s.mid = (mid + 1) & 0xFFFF
        s.mids.setdefault(r, []).append(mid)
        if resolved(mt) == CON:
            s.fires_needed += maxre + 2
            if r in s.ex: s.q[r].append(((kind, n), mid, maxre))
            elif r in s.refusing: s.fail(r)
            else: s.open(r, (kind, n), mid, maxre)
        elif r in s.refusing: s.fail(r)
    def close_ok(s, r):
        del s.ex[r]
        if s.q[r]:
            if r in s.refusing: s.fail(r); return
            sub, mid, maxre = s.q[r].pop(0); s.open(r, sub, mid, maxre)
        else: del s.q[r]
    def fail(s, r):
        s.ex.pop(r, None); s.q.pop(r, None)
        for q in [q for q, (t, rr) in s.out.items() if rr == r]: del s.out[q]
        for k in [k for k, v in s.served.items() if v[0] == r]: del s.served[k]
    def recv(s, r, mt, mid, tok=None):
        if mt in (ACK, RST) and r in s.ex and s.ex[r]["mid"] == mid:
            sub = s.ex[r]["sub"]
            if mt == RST and sub[0] == "req": s.out.pop(sub[1], None)
            if mt == RST and sub[0] == "respond": s.served.pop(s.responder_of.get(sub[1]), None)
            s.close_ok(r)
        if tok is not None and mt != RST:
            for q, (t, rr) in list(s.out.items()):
                if t == tok and rr == r: del s.out[q]
    def fire(s):
        if not s.ex: return
        r = min(s.ex, key=lambda r: (s.ex[r]["due"], s.ex[r]["seq"])); x = s.ex[r]
        s.now = max(s.now, x["due"])
        if x["counter"] < x["maxre"]:
            x["counter"] += 1; x["timeout"] *= 2; x["due"] = s.now + x["timeout"]; x["seq"] = s.seq; s.seq += 1
        else: s.fail(r)
    def advance(s, d):
        nd = min((x["due"] for x in s.ex.values()), default=None)
        if d >= 0 and (nd is None or nd > s.now + d): s.now += d
    def apply(s, ev):
        k = ev[0]
        if k == "req": s.submit("req", ev[1], ev[2], ev[3], ev[4])
        elif k == "raw": s.submit("raw", ev[1], ev[2], ev[3], ev[5])
        elif k == "empty": s.recv(ev[1], ev[2], ev[3])
        elif k == "resp": s.recv(ev[1], ev[2], ev[3], ev[4])
        elif k == "err": s.fail(ev[1])
        elif k == "fire": s.fire()
        elif k == "adv": s.advance(ev[1])
        elif k == "cancel": s.out.pop(ev[1], None)
        elif k == "refuse": (s.refusing.add if ev[2] else s.refusing.discard)(ev[1])
        elif k == "serve":
            for kk in [kk for kk, v in s.served.items() if v[0] == ev[2] and v[1] == ev[3]]: del s.served[kk]
            s.served[ev[1]] = (ev[2], ev[3], ev[4])
        elif k == "respond":
            v = s.served.get(ev[2])
            if v is not None:
                s.responder_of[ev[1]] = ev[2]
                s.submit("respond", ev[1], v[0], 7 if v[2] == NON else 8, ev[4])
                if ev[3]: s.served.pop(ev[2], None)
    responder_of = {}


def concretize(sym, sim, ids, rng=None):
    """symbolic event -> concrete event, using the bookkeeping for 'the mid awaiting its ACK at r' etc."""
    k = sym[0]
    if k in ("req", "raw"):
        ids[0] += 1
        if k == "req": return ["req", ids[0], sym[1], sym[2], sym[3]]
        return ["raw", ids[0], sym[1], sym[2], sym[3], sym[4]]
    if k == "serve":        # ["serve", r, mt]: a new responder for a fresh token (or, sometimes, the token of a live one)
        ids[0] += 1
        return ["serve", ids[0], sym[1], sym[3] if len(sym) > 3 else 1000 + ids[0], sym[2]]
    if k == "respond":      # ["respond", which, last, maxre]: the which-th live responder (or a dead one) produces a response
        ids[0] += 1
        live = sorted(sim.served)
        kk = live[sym[1] % len(live)] if live else max(1, ids[0] - 1)
        return ["respond", ids[0], kk, bool(sym[2]), sym[3]]
    if k in ("ack", "rst"):
        r = sym[1]; mid = sim.ex[r]["mid"] if r in sim.ex else (sim.mids.get(r, [sim.mid])[-1])
        return ["empty", r, ACK if k == "ack" else RST, mid]
    if k == "pig":          # piggy-backed response ending the open exchange of r
        r = sym[1]
        if r in sim.ex:
            x = sim.ex[r]; tok = sim.out.get(x["sub"][1], (0, r))[0] if x["sub"][0] == "req" else 0
            return ["resp", r, ACK, x["mid"], tok]
        return ["resp", r, ACK, sim.mid, 0]
    return list(sym)


class C14(fw.Property):
    id = "C14"
    coq_props = "Props/C14.v"
    gen_jobs = ["c14_message_id"]
    model_imports = ["Verif.Model.C14", "Verif.Model.C14refuse"]
    quick_budget = 200
    thorough_budget = 9000
    design_ref = "DESIGN.md section 15 (C14)"
    technique = ("Coq invariant + refinement proofs (FIFO queue per remote, release/failure trichotomy, frame) over an executable model of the "
                 "MessageManager NSTART slice, induction over all event lists; differential correspondence against the real "
                 "Context/TokenManager/MessageManager under a virtual-time loop; independent wire-level oracle")
    level_text = ("Theorems (closed under the global context) over Model/C14refuse.v (transport may refuse any datagram synchronously, arbitrary refusal "
                  "pattern) for every event list: at most one exchange per remote and backlog key iff exchange; submission order = (first transmissions and "
                  "drops) ++ queue per remote; no AssertionError/KeyError path reachable; a message is discarded only in a step after which no request to its remote "
                  "is outstanding. Over Model/C14.v (= the general model while nothing is refused, proved): a held-back message is released exactly in the step that "
                  "ends the exchange ahead by ACK/RST, dropped (with its request failed) exactly on give-up/transport error (a refusal is that very step), "
                  "otherwise stays; NON and CON-to-idle-remote go out in the submission step; events of one remote leave the others untouched; liveness for "
                  "every schedule: a held-back message has left its queue after `budget` progress steps of the exchange ahead (retransmission budget as measure), "
                  "hence eventually under the explicit fairness hypothesis `fair`. Round 5: server-side responders (incoming_requests, stoppers) are modelled: when an endpoint "
                  "fails every responder serving it is stopped (C14_dropped_response_stopped); the trichotomy, frame and liveness bound hold over step_ev/rrun for every "
                  "remote that is not itself refused (C14_general_*); no exception leaves the modelled code, responders' responses included (finding C14-R3, TypeError in Pipe._add_event on a refused notification, fixed by /repo 44c4a4c).")
    level_note = ("Trusted: Coq kernel + vm_compute; the hand-written models' correspondence with messagemanager.py/tokenmanager.py (sampled event scripts, "
                  "compared output-by-output and on the final dict contents); the virtual loop as ideal timer service. Not modelled: incoming requests "
                  "(dedup, piggy-back), multicast, shutdown, observe; 2^64 token wrap collisions. The release/drop/held trichotomy, the frame theorems and the liveness "
                  "theorems are stated for the accepting transport; with refusals the invariant, FIFO accounting, no-internal-error and discarded-only-with-requests-failed are proved.")
    rule = ("streams: script = random event scripts (1-4 remotes, one of them hot; CON/NON requests via Context.request with explicit/hinted/default mtype, raw CON/NON "
            "responses via MessageManager.send_message with a recording monitor, ACK/RST/piggy-backed/separate responses aimed at the exchange that is open "
            "according to generator bookkeeping, stale and cross-remote ACKs, pings, timer firings, time advances, transport errors, cancellations; "
            "MAX_RETRANSMIT 0..4 per message, scripted random.uniform values incl. ties, mid/token counters near wrap-around; half of the scripts end with "
            "enough firings to quiesce); template = a queue of 3 CON + 1 NON at one remote and a CON at another with one fault (ACK, RST, piggy-back, transport "
            "error, time-out, cancel, stale ACK) inserted at every position; enum (thorough) = all scripts up to depth 5 over a 7-symbol alphabet. "
            "Non-trivial = at least one held-back message was released or dropped; distinct by full input.")
    trusted_base = ["hand-written Model/C14refuse.v (every stream runs through it) and Model/C14.v (proved equal to it while nothing is refused)",
                    "translator translate/py2v.py + Lib/Py.v for the message-ID counter (Gen/c14_message_id.v, regenerated from messagemanager.py on every run)",
                    "harness/simloop.py virtual loop (ideal timers, FIFO ready queue) and harness/simnet.py fake transport",
                    "labels of fired timers are read from the timer handle (closure defaults of MessageManager._schedule_retransmit.retr)"]
    assumptions = ["tokens do not wrap around 2^64 within one run while requests are outstanding (dict key replacement not modelled)",
                   "unicast remotes; message manager not shut down; no incoming requests (no piggy-back opportunities, no duplicate store)",
                   "server side: requests enter at TokenManager.process_request (past dedup / piggy-back bookkeeping) except in the oracle-only piggyback stream; handlers are driven by the script",
                   "a refusing transport is the fake interface's send() calling MessageManager.dispatch_error(OSError(ENETUNREACH), remote) before returning, as udp6's error_received does from inside sendmsg"]

    # ---------------------------------------------------------------- generator
    def _random_script(self, rng, refusal=False, server=False):
        nrem = rng.choice([1, 2, 2, 3, 4]); hot = 0
        mid0 = rng.choice([0, 7, rng.randint(0, 65535), 65533, 65534, 65535])
        token0 = rng.choice([0, 0, rng.randint(0, 70000), 2 ** 64 - 3, 255, 65535])
        base = rng.choice([2000000, 2500000, 3000000, rng.randint(2000000, 3000000)])
        rand = [rng.choice([base, base, rng.randint(2000000, 3000000), 2000000, 3000000]) for _ in range(rng.randint(0, 8))]
        sim = Sim(mid0, token0, rand); ids = [0]; events = []
        maxre_pool = rng.choice([[0], [0, 1], [1], [0, 1, 2], [4], [0, 1, 2, 4]])
        def remote(): return hot if rng.random() < 0.6 else rng.randrange(nrem)
        def busy(): return rng.choice(sorted(sim.ex)) if sim.ex and rng.random() < 0.9 else rng.randrange(nrem)
        n = rng.randint(4, 36)
        for _ in range(n):
            x = rng.random()
            if refusal and rng.random() < 0.12:
                # the transport starts / stops refusing datagrams to a remote (mostly the busy one; mostly switched off again soon)
                r = busy() if rng.random() < 0.7 else remote()
                sym = ["refuse", r, (r not in sim.refusing) if rng.random() < 0.85 else rng.random() < 0.5]
            elif server and rng.random() < 0.3:
                if not sim.served or rng.random() < 0.25:
                    live = sorted(sim.served)
                    sym = ["serve", remote(), rng.choice([CON, CON, CON, NON])] + ([1000 + rng.choice(live)] if live and rng.random() < 0.15 else [])
                else: sym = ["respond", rng.randrange(8), rng.random() < 0.25, rng.choice(maxre_pool)]
            elif x < 0.26: sym = ["req", remote(), rng.choice([0, 0, 0, 4, 6]), rng.choice(maxre_pool)]
            elif x < 0.32: sym = ["req", remote(), rng.choice([1, 5]), rng.choice(maxre_pool)]
            elif x < 0.42: sym = ["raw", remote(), rng.choice([0, 0, 1, 4, 5, 6, 7, 8]), rng.randint(1, 300), rng.choice(maxre_pool)]
            elif x < 0.57: sym = ["ack", busy()]
            elif x < 0.63: sym = ["rst", busy()]
            elif x < 0.69: sym = ["pig", busy()]
            elif x < 0.74:      # separate response / stray response
                r = busy(); cands = [t for q, (t, rr) in sim.out.items() if rr == r]
                tok = rng.choice(cands) if cands and rng.random() < 0.8 else rng.randint(0, 400)
                sym = ["resp", r, rng.choice([CON, NON, NON, RST]), rng.randint(0, 65535), tok]
            elif x < 0.80:      # stale / wrong-remote / backlogged mid
                r = rng.randrange(nrem); pool = [m for ms in sim.mids.values() for m in ms] or [0]
                sym = ["empty", r, rng.choice([ACK, ACK, RST]), rng.choice(pool + [(sim.mid + 1) & 0xFFFF])]
            elif x < 0.91: sym = ["fire"]
            elif x < 0.94: sym = ["adv", rng.choice([0, 1, 1000, 500000, 1999999, 2000000, rng.randint(0, 4000000)])]
            elif x < 0.965: sym = ["err", busy()]
            elif x < 0.985: sym = ["cancel", rng.randint(1, max(1, ids[0]))]
            else: sym = ["empty", rng.randrange(nrem), rng.choice([CON, NON]), rng.randint(0, 65535)]
            ev = concretize(sym, sim, ids); sim.apply(ev); events.append(ev)
        closed = rng.random() < 0.5
        if closed: events += [["fire"]] * sim.fires_needed
        return {"mid0": mid0, "token0": token0, "rand": rand, "events": events, "closed": closed}

    def _templates(self):
        base = [["req", 0, 0, 1], ["req", 0, 0, 1], ["req", 0, 1, 1], ["req", 1, 0, 1], ["raw", 0, 0, 9, 1], ["req", 0, 6, 1], ["ack", 0], ["ack", 0]]
        faults = [[["ack", 0]], [["rst", 0]], [["pig", 0]], [["err", 0]], [["err", 1]], [["fire"], ["fire"]], [["fire"]] * 4, [["cancel", 2]], [["cancel", 1]],
                  [["empty", 1, ACK, 1]], [["adv", 2000000]], [["resp", 0, CON, 500, 2]], [["ack", 1]]]
        for mid0, token0 in ((0, 0), (65534, 2 ** 64 - 3)):
            for f in faults:
                for pos in range(len(base) + 1):
                    sim = Sim(mid0, token0, []); ids = [0]; events = []
                    for sym in base[:pos] + f + base[pos:]:
                        ev = concretize(sym, sim, ids); sim.apply(ev); events.append(ev)
                    events += [["fire"]] * sim.fires_needed
                    yield {"mid0": mid0, "token0": token0, "rand": [], "events": events, "closed": True}

    def _refuse_templates(self):
        """the transport refuses remote 0 from every position of the queue scenario on, and accepts again 0..3 events later"""
        base = [["req", 0, 0, 2], ["req", 0, 0, 1], ["req", 1, 0, 1], ["raw", 0, 0, 9, 1], ["req", 0, 1, 1], ["ack", 0], ["fire"], ["rst", 0], ["fire"],
                ["resp", 0, CON, 500, 77], ["req", 0, 6, 0], ["req", 0, 0, 0], ["ack", 0], ["fire"], ["fire"]]
        for pos in range(len(base) + 1):
            for dur in (1, 2, 3, 99):
                syms = list(base); syms.insert(pos, ["refuse", 0, True])
                if pos + 1 + dur <= len(syms): syms.insert(pos + 1 + dur, ["refuse", 0, False])
                sim = Sim(0, 0, []); ids = [0]; events = []
                for sym in syms:
                    ev = concretize(sym, sim, ids); sim.apply(ev); events.append(ev)
                events += [["fire"]] * sim.fires_needed
                yield {"mid0": 0, "token0": 0, "rand": [], "events": events, "closed": True}

    def _enum(self, depth):
        import itertools
        alphabet = [["req", 0, 0, 0], ["req", 1, 0, 1], ["req", 0, 1, 0], ["ack", 0], ["rst", 0], ["fire"], ["err", 0]]
        for L in range(1, depth + 1):
            for syms in itertools.product(alphabet, repeat=L):
                sim = Sim(65535, 0, []); ids = [0]; events = []
                for sym in syms:
                    ev = concretize(sym, sim, ids); sim.apply(ev); events.append(ev)
                events += [["fire"]] * sim.fires_needed
                yield {"mid0": 65535, "token0": 0, "rand": [], "events": events, "closed": True}

    def _piggyback_cases(self, rng, n):
        """clause 5 for responses that can ride on the ACK: remote busy (exchange open, queue of 0..3), then a CON request from it is
        answered at once; no timer is fired in this stream (the piggy-back and dedup timers are not modelled)"""
        for _ in range(n):
            r = rng.randrange(2); events = []; ids = 0
            for _ in range(rng.randint(1, 4)):
                ids += 1; events.append(["req", ids, r if rng.random() < 0.8 else 1 - r, rng.choice([0, 0, 6]), rng.choice([0, 1, 2])])
            ids += 1; kk = ids; events.append(["serve_pb", kk, r, 500 + kk, rng.randint(0, 65535)])
            if rng.random() < 0.3: ids += 1; events.append(["req", ids, r, 0, 1])
            ids += 1; last = rng.random() < 0.5; events.append(["respond", ids, kk, last, rng.choice([0, 1])])
            if not last:
                ids += 1; events.append(["respond", ids, kk, rng.random() < 0.5, 1])      # second response: separate, confirmable, queued behind
            if rng.random() < 0.5: events.append(["err", r])
            yield {"mid0": rng.choice([0, 65534]), "token0": 0, "rand": [], "events": events, "closed": False}

    def gen_cases(self, tier, rng, n):
        for c in self._piggyback_cases(rng, 12 if tier == "quick" else 400): yield "piggyback", c
        templates = list(self._templates()); rtemplates = list(self._refuse_templates())
        if tier == "quick":
            rng.shuffle(templates); templates = templates[:n // 5]
            rng.shuffle(rtemplates); rtemplates = rtemplates[:n // 10]
        for t in templates: yield "template", t
        for t in rtemplates: yield "refuse-template", t
        rest = max(0, n - len(templates) - len(rtemplates))
        for k in range(rest):
            if k % 4 == 3: yield "refuse", self._random_script(rng, refusal=True, server=(k % 8 == 7))
            elif k % 4 == 1: yield "server", self._random_script(rng, server=True)
            else: yield "script", self._random_script(rng)
        if tier == "thorough":
            for c in self._enum(5): yield "enum", c
            for c in self._enum_refuse(4): yield "enum-refuse", c

    def _enum_refuse(self, depth):
        import itertools
        alphabet = [["req", 0, 0, 1], ["req", 0, 1, 0], ["ack", 0], ["fire"], ["refuse", 0, True], ["refuse", 0, False], ["req", 1, 0, 0], ["resp", 0, CON, 9, 1]]
        for L in range(2, depth + 1):
            for syms in itertools.product(alphabet, repeat=L):
                if ["refuse", 0, True] not in syms: continue
                sim = Sim(0, 0, []); ids = [0]; events = []
                for sym in syms:
                    ev = concretize(sym, sim, ids); sim.apply(ev); events.append(ev)
                events += [["refuse", 0, False]] + [["fire"]] * sim.fires_needed
                yield {"mid0": 0, "token0": 0, "rand": [], "events": events, "closed": True}

    # ---------------------------------------------------------------- implementation
    def impl(self, stream, inp):
        return Driver(inp).run(inp["events"])

    # ---------------------------------------------------------------- model
    def model(self, stream, inp):
        if stream == "piggyback": return None      # oracle-only: the piggy-back opportunity and its EMPTY_ACK_DELAY timer are not modelled
        evs = []
        for ev in inp["events"]:
            k = ev[0]
            if k == "req": evs.append("Ev (Request %s %s %s %s)" % tuple(gz(x) for x in ev[1:5]))
            elif k == "raw": evs.append("Ev (RawSend %s %s %s %s %s)" % tuple(gz(x) for x in ev[1:6]))
            elif k == "empty": evs.append("Ev (RecvEmpty %s %s %s)" % tuple(gz(x) for x in ev[1:4]))
            elif k == "resp": evs.append("Ev (RecvResp %s %s %s %s)" % tuple(gz(x) for x in ev[1:5]))
            elif k == "err": evs.append("Ev (TransportError %s)" % gz(ev[1]))
            elif k == "fire": evs.append("Ev Fire")
            elif k == "adv": evs.append("Ev (Advance %s)" % gz(ev[1]))
            elif k == "cancel": evs.append("Ev (Cancel %s)" % gz(ev[1]))
            elif k == "refuse": evs.append("Refuse %s %s" % (gz(ev[1]), fw.gbool(ev[2])))
            elif k == "serve": evs.append("Ev (Serve %s %s %s %s)" % tuple(gz(x) for x in ev[1:5]))
            elif k == "respond": evs.append("Ev (Respond %s %s %s %s)" % (gz(ev[1]), gz(ev[2]), fw.gbool(ev[3]), gz(ev[4])))
            else: raise ValueError(k)
        return "rrun_view %s %s %s %s" % (gz(inp.get("mid0", 0)), gz(inp.get("token0", 0)), glist([gz(x) for x in inp.get("rand", [])]), glist(evs))

    def decode(self, stream, inp, p):
        steps_p, fin = p
        def subtag(s): return {"Req": "q%d", "Raw": "s%d", "Resp": "p%d"}[s.name] % s.args[0]
        def one(o):
            n, a = o.name, o.args
            if n == "Tx":
                m = a[0]; return ["tx", m["m_remote"], m["m_mtype"], m["m_code"], m["m_mid"], m["m_tok"], subtag(m["m_sub"]), a[1]]
            if n == "TxEmpty": return ["tx", a[0], a[1], 0, a[2], 0, "", False]
            if n == "Fired": return ["fired", a[0], a[1]]
            if n == "Deliver": return ["deliver", a[0]]
            if n == "Fail": return ["fail", a[0], a[1].name]
            if n == "Cancelled": return ["cancelled", a[0]]
            if n == "Monitor": return ["monitor", a[0]]
            if n == "Ended": return ["ended", a[0]]
            if n == "Crash": return ["crash", a[0].name]
            return None
        steps = [[x for x in (one(o) for o in st) if x is not None] for st in steps_p]
        now, ex, bl, out, mid, tok, inc = fin
        return {"steps": steps,
                "final": {"now": now, "exchanges": sorted([a, b] for a, b in ex), "backlogs": sorted([r, [subtag(s) for s in q]] for r, q in bl),
                          "outgoing": list(out), "next_mid": mid, "token": tok, "incoming": list(inc)}}

    # ---------------------------------------------------------------- oracle: NSTART rules on wire + completions
    def oracle(self, stream, inp, res):
        if "harness_exception" in res:
            return ("C14:crash:" + res["harness_exception"], "driver raised %s at %s: %s" % (res["harness_exception"], res.get("where"), res.get("text")))
        subs = {}            # tag -> dict(kind, n, r, con, status)
        open_ = {}           # r -> (mid, tag) of the confirmable message awaiting its acknowledgement
        waitq = {}           # r -> tags submitted but held back, oldest first
        live = {}            # q -> remote, requests not completed yet
        refusing = set()     # remotes for which the transport currently refuses every datagram (reported as an error for the endpoint)
        zombies = {}         # (r, mid) -> tag: exchanges that ended because their retransmission was refused
        responders = {}      # k -> dict(r, tok, con): server-side responders whose pipe has not ended (as far as "ended" was observed)
        for i, (ev, outs) in enumerate(zip(inp["events"], res["steps"])):
            k = ev[0]; where = "step %d %r" % (i, ev)
            if k == "refuse":
                (refusing.add if ev[2] else refusing.discard)(ev[1]); continue
            acked = None; failed = None; ev_remote = None; rst_tag = None; refused_release = False
            if k in ("empty", "resp"):
                ev_remote = ev[1]
                if ev[2] in (ACK, RST) and (ev[1], ev[3]) in zombies and any(o[0] == "crash" for o in outs):
                    return ("C14:zombie-exchange:ack-crash", "%s: %s escaped while acknowledging %s, whose exchange had ended when its retransmission was refused but was put back" % (where, [o[1] for o in outs if o[0] == "crash"][0], zombies[(ev[1], ev[3])]))
                if ev[2] in (ACK, RST) and ev[1] in open_ and open_[ev[1]][0] == ev[3]:
                    acked = ev[1]
                    if ev[2] == RST: rst_tag = open_[ev[1]][1]
                    if acked in refusing and waitq.get(acked): failed = acked; refused_release = True    # the release is refused: error for the endpoint
                if ev[2] == CON and ev[1] in refusing: failed = ev[1]       # our ACK / RST reply is refused
            elif k == "err": failed = ev_remote = ev[1]
            elif k == "fire":
                lab = [o for o in outs if o[0] == "fired"]
                if any(o[0] == "fired-unknown" for o in outs): return ("C14:unlabelled-timer", "%s: a timer that is no retransmission timer fired" % where)
                if lab:
                    _, r, mid = lab[0]; ev_remote = r
                    if (r, mid) in zombies:
                        return ("C14:zombie-exchange:timer-fired", "%s: the retransmission timer of %s (%s,%s) fired again although that exchange ended (requests failed, queue dropped) when its retransmission was refused" % (where, zombies[(r, mid)], r, mid))
                    if r not in open_ or open_[r][0] != mid:
                        return ("C14:timer-of-closed-exchange", "%s: retransmission timer of (%s,%s) fired although that exchange is over" % (where, r, mid))
                    if not any(o[0] == "tx" and o[7] and o[1] == r and o[4] == mid for o in outs):
                        failed = r
                        if r in refusing: new_zombie = ((r, mid), open_[r][1])
            elif k in ("req", "raw", "serve"): ev_remote = ev[2]
            elif k == "cancel": ev_remote = live.get(ev[1])
            elif k == "respond": ev_remote = responders[ev[2]]["r"] if ev[2] in responders else None
            expect_now = None
            if k == "serve": responders[ev[1]] = dict(r=ev[2], tok=ev[3], con=ev[4] != NON)
            if k == "serve_pb":        # the first response can be piggy-backed on the ACK: it is not confirmable, nothing may hold it back
                ev_remote = ev[2]; responders[ev[1]] = dict(r=ev[2], tok=ev[3], con=False, pb=ev[4])
            submission = None
            if k in ("req", "raw"): submission = (ev[2], resolved(ev[3]) == CON)
            elif k == "respond" and ev[2] in responders: submission = (responders[ev[2]]["r"], responders[ev[2]]["con"])
            if submission is not None:
                tag = sub_tag(k, ev[1]); r, con = submission
                if tag in subs: return None     # ill-formed script (duplicate id): nothing to say
                subs[tag] = dict(kind=k, n=ev[1], r=r, con=con, status="waiting")
                if k == "req": live[ev[1]] = r
                if con and (r in open_ or waitq.get(r)): waitq.setdefault(r, []).append(tag)
                elif r in refusing:        # handed to the transport at once and refused: error for the endpoint, the message counts as held back
                    waitq.setdefault(r, []).append(tag); failed = r
                else: expect_now = tag
            # ---- effects of the event on the exchange that was open
            if acked is not None: del open_[acked]
            if failed is not None:
                open_.pop(failed, None)
                for key in [key for key in zombies if key[0] == failed]: del zombies[key]
            if k == "fire" and failed is not None and failed in refusing and lab: zombies[(lab[0][1], lab[0][2])] = new_zombie[1]
            released = []
            for o in outs:
                if o[0] == "crash":
                    if o[1] == "TypeError" and k == "respond" and not ev[3] and failed is not None and failed == ev_remote and ev_remote in refusing:
                        return ("C14:refused-notification:TypeError", "%s: the transport refused the notification; the responder's pipe ended inside its own event callback and Pipe._add_event raised TypeError out of add_response" % where)
                    if refused_release and o[1] == "KeyError":
                        return ("C14:refused-release:KeyError", "%s: the transport refused the release of held-back %s; KeyError escaped _continue_backlog / dispatch_message" % (where, waitq[acked][0]))
                    return ("C14:crash:" + str(o[1]), "%s: %s left the message layer" % (where, o[1]))
                if o[0] == "tx":
                    _, r, mt, code, mid, tok, tag, retr = o
                    if tag not in subs: continue        # empty ACK / RST replies
                    sb = subs[tag]
                    if retr:
                        if mt == CON and (r not in open_ or open_[r] != (mid, tag)):
                            return ("C14:retransmission-of-closed-exchange", "%s: %s retransmitted although its exchange is over" % (where, tag))
                        continue
                    if sb["status"] == "dropped": return ("C14:transmitted-after-failed", "%s: %s transmitted after its endpoint failed" % (where, tag))
                    if sb["status"] == "sent": return ("C14:transmitted-twice", "%s: %s first-transmitted twice" % (where, tag))
                    if mt == CON:
                        if r in open_:
                            return ("C14:two-in-flight", "%s: CON %s sent to %s while %s still awaits its acknowledgement" % (where, tag, r, open_[r][1]))
                        wq = waitq.get(r, [])
                        if wq and wq[0] == tag:
                            if acked != r: return ("C14:released-without-ack", "%s: held-back %s released although the exchange ahead was not acknowledged/reset in this step" % (where, tag))
                            wq.pop(0); released.append(tag)
                        elif tag in wq or wq:
                            return ("C14:fifo-order", "%s: %s transmitted before older held-back %s" % (where, tag, wq[0]))
                        open_[r] = (mid, tag)
                    sb["status"] = "sent"
                elif o[0] == "fail":
                    _, q, cls = o
                    if cls not in ("MessageError", "ConRetransmitsExceeded", "NetworkError"):
                        return ("C14:crash:" + cls, "%s: request %s failed with %s" % (where, q, cls))
                    rq = live.pop(q, None)
                    legit = (rst_tag == "q%d" % q and cls == "MessageError") or (failed is not None and failed == rq)
                    if not legit:
                        sig = "C14:cross-remote-failure" if ev_remote != rq else "C14:unexpected-failure"
                        return (sig, "%s: request %s to %s failed with %s in a step that neither reset its exchange nor failed its endpoint" % (where, q, rq, cls))
                elif o[0] in ("deliver", "cancelled"): live.pop(o[1], None)
            if k == "respond" and ev[2] in responders and "pb" in responders[ev[2]]:
                pbmid = responders[ev[2]].pop("pb"); responders[ev[2]]["con"] = True       # later responses are separate (CON)
                hit = [o for o in outs if o[0] == "tx" and o[6] == sub_tag(k, ev[1])]
                if hit and (hit[0][2] != ACK or hit[0][4] != pbmid):
                    return ("C14:piggy-back-not-used", "%s: the response to CON request mid %d was sent as type %d mid %d instead of piggy-backed on the ACK" % (where, pbmid, hit[0][2], hit[0][4]))
            if expect_now is not None and subs[expect_now]["status"] != "sent":
                sb = subs[expect_now]
                return ("C14:non-delayed" if not sb["con"] else "C14:con-to-idle-remote-delayed",
                        "%s: %s was not transmitted in the step it was submitted although nothing is outstanding at %s" % (where, expect_now, sb["r"]))
            if acked is not None and failed != acked and not released and waitq.get(acked):
                return ("C14:not-released-on-ack", "%s: exchange at %s ended but held-back %s was not transmitted" % (where, acked, waitq[acked][0]))
            if failed is not None:
                failed_qs = {o[1] for o in outs if o[0] == "fail"}
                for tag in waitq.pop(failed, []):
                    sb = subs[tag]; sb["status"] = "dropped"
                    if sb["kind"] == "req" and sb["n"] in live and sb["n"] not in failed_qs:
                        return ("C14:held-back-not-failed", "%s: endpoint %s failed but the request of held-back %s was not failed" % (where, failed, tag))
                    live.pop(sb["n"], None) if sb["kind"] == "req" else None
                for q in failed_qs: live.pop(q, None)
                ended_now = {o[1] for o in outs if o[0] == "ended"}
                for kk, v in sorted(responders.items()):
                    if v["r"] == failed and kk not in ended_now:
                        return ("C14:held-back-response-not-stopped", "%s: endpoint %s failed but responder %d serving it was not stopped (its queued responses are gone, its handler keeps running)" % (where, failed, kk))
            for o in outs:
                if o[0] == "ended": responders.pop(o[1], None)
            for r, wq in waitq.items():
                if wq and r not in open_:
                    return ("C14:forgotten", "%s: %s is held back for %s but no confirmable message is outstanding there" % (where, wq[0], r))
        # the anchored state invariant, read off the final dict contents: a backlog entry iff exactly one exchange
        ex_remotes = [r for r, _ in res["final"]["exchanges"]]
        if len(set(ex_remotes)) != len(ex_remotes):
            return ("C14:two-exchanges-one-remote", "final _active_exchanges %r" % (res["final"]["exchanges"],))
        if set(ex_remotes) != set(r for r, _ in res["final"]["backlogs"]):
            if any([r, mid] in res["final"]["exchanges"] for (r, mid) in zombies):
                return ("C14:zombie-exchange:final-state", "exchange %r is still active without backlog entry: it ended when its retransmission was refused but was put back" % (sorted(zombies),))
            return ("C14:backlog-key-mismatch", "final exchanges %r but backlog entries %r" % (res["final"]["exchanges"], res["final"]["backlogs"]))
        if not ex_remotes:       # nothing outstanding any more: whatever still waits will never be released
            for tag, sb in subs.items():
                if sb["status"] == "waiting":
                    return ("C14:forgotten", "no exchange is open at the end of the script but %s was neither transmitted nor failed" % tag)
        return None

    def nontrivial(self, stream, inp, res):
        if "steps" not in res: return None
        sent_at = {}
        for i, (ev, outs) in enumerate(zip(inp["events"], res["steps"])):
            sub_here = sub_tag(ev[0], ev[1]) if ev[0] in ("req", "raw") else None
            for o in outs:
                if o[0] == "tx" and not o[7] and o[2] == CON and o[6] and o[6] != sub_here: return fw.jdump([stream, inp])
            if ev[0] in ("fire", "err") and any(o[0] == "fail" for o in outs) and len([o for o in outs if o[0] == "fail"]) > 1: return fw.jdump([stream, inp])
        return None

PROPERTY = C14()

if __name__ == "__main__":
    import sys, json
    fw.assert_repo()
    inp = json.loads(sys.argv[1])
    r = Driver(inp).run(inp["events"])
    print(json.dumps(r, indent=None)); print("oracle:", PROPERTY.oracle("script", inp, r))
