"""C16 — CoAP URIs and Uri-* options convert into each other without loss.

Correspondence of Model/C16.v (+ the translated kernels Gen/uri_kernels.v) with the real
Message.set_request_uri / get_request_uri / UndecidedRemote / hostportjoin / hostportsplit / quote functions,
and an oracle that states RFC 7252 sections 6.4 / 6.5 on the implementation's behaviour, independently of the model.
"""
import os, sys, re, string, ipaddress, urllib.parse
import fw
from fw import gz, gbool, glist

# ----------------------------------------------------------------------------- Gallina literals / decoding
def gs(s): return "[" + "; ".join(str(ord(c)) for c in s) + "]"
def gsl(l): return glist([gs(x) for x in l])
def gos(s): return "None" if s is None else "(Some %s)" % gs(s)
def goz(n): return "None" if n is None else "(Some %s)" % gz(n)

def dstr(x): return "".join(chr(c) for c in x)
def dopt(x, f): return None if x == "None" else f(x["a"][0])
OTHER = {16: "UnicodeEncodeError", 99: "Unmodelled"}
def dexn(e):
    if isinstance(e, str): return "exn:" + e
    n = e["a"][0]; return "exn:" + OTHER.get(n, "Other%d" % n)
def dM(x, f): return f(x["a"][0]) if x["c"] == "Ok" else dexn(x["a"][0])
def ddec(x):
    if x["c"] == "DProxy": return {"proxy": dstr(x["a"][0])}
    sch, hi, h, p, q = x["a"]
    return {"scheme": dstr(sch), "hostinfo": dstr(hi), "host": dopt(h, dstr), "path": [dstr(s) for s in p], "query": [dstr(s) for s in q]}
def dsplit(x):
    h, p = x
    return [dopt(h, dstr), dopt(p, lambda v: v)]

# ----------------------------------------------------------------------------- character classes (RFC 3986), used by generator and oracle
UNRESERVED = string.ascii_letters + string.digits + "-._~"
SUB_DELIMS = "!$&'()*+,;="
PATH_RAW = UNRESERVED + SUB_DELIMS + ":@"
QUERY_RAW = UNRESERVED + SUB_DELIMS.replace("&", "") + ":@/?"
COAP_SCHEMES = ["coap", "coaps", "coap+tcp", "coaps+tcp", "coap+ws", "coaps+ws"]
HEX = "0123456789ABCDEF"
NONASCII = "äßéñ€中日\u0080߿ࠀ퟿￿\U00010000\U0001F600\U0010FFFF℀Ä"
RESERVED_MIX = "/?&=%#+;:@ []"
CONTROLS = "\x00\t\n\r\x7f\x1f"
RAW_NONASCII_HOST = "äÄİßǄ８Ａ中é"          # none of them normalises (NFKC) to a delimiter
NFKC_DELIMS = ["h℀", "h／x", "a＃b", "a＠b", "a：b", "a？b", "℁"]   # normalise to text containing / ? # @ :

def is_surrogate(c): return 0xD800 <= ord(c) <= 0xDFFF
def valid_str(s): return not any(is_surrogate(c) for c in s)
def lower_ascii(s): return "".join(chr(ord(c) + 32) if "A" <= c <= "Z" else c for c in s)
def lower_before_pct(s):
    a, p, z = s.partition("%"); return lower_ascii(a) + p + z
def looks_ipv4(h):
    parts = h.split(".")
    return len(parts) == 4 and all(p.isascii() and p.isdigit() and len(p) <= 4300 and int(p) <= 255 for p in parts)
def regname_safe_lower(h):
    """Uri-Host values that get_request_uri can put into a URI as they are (after escaping non-ASCII)"""
    return h != "" and all((c in UNRESERVED and not ("A" <= c <= "Z")) or c in SUB_DELIMS or (ord(c) > 127 and not is_surrogate(c)) for c in h)

def ip_norm(s):
    try: ip = ipaddress.ip_address(s)
    except ValueError: return None
    return ("Ip4" if isinstance(ip, ipaddress.IPv4Address) else "Ip6", str(ip))
def clean(u):
    u = u.lstrip("".join(chr(i) for i in range(33)))
    return u.replace("\t", "").replace("\r", "").replace("\n", "")
def ip_table(strings):
    """results of the real ipaddress module for every bracketed substring of the given strings (trusted stdlib, see Model/C16.v)"""
    cands = set()
    for s in strings:
        if s is None: continue
        for v in {s, clean(s)}:
            opens = [i for i, ch in enumerate(v) if ch == "["][:6]
            closes = [j for j, ch in enumerate(v) if ch == "]"][:6]
            for i in opens:
                for j in closes:
                    if j > i: cands.add(v[i + 1:j])
            cands.add(v); cands.add(v.strip("[]"))
            # Uri-Host values that get_request_uri will look at: the percent-decoded, lower-cased host of the URI
            for mm in re.finditer(r"//([^/?#]*)", v):
                hp = mm.group(1).rpartition("@")[2]
                for piece in {hp, hp.partition(":")[0], hp.rpartition(":")[0]}:
                    for w in {piece, urllib.parse.unquote(piece, errors="replace")}:
                        w = lower_ascii(w)
                        cands.add(w); cands.add(w.removeprefix("[").removesuffix("]"))
    for c in list(cands): cands.add(lower_before_pct(c))
    tbl = {}
    for c in cands:
        if len(c) > 80: continue
        r = ip_norm(c)
        if r is not None:
            tbl[c] = r
            r2 = ip_norm(r[1])
            if r2 is not None: tbl[r[1]] = r2
    return glist(["(%s, %s %s)" % (gs(k), v[0], gs(v[1])) for k, v in sorted(tbl.items())])

# ----------------------------------------------------------------------------- running the implementation
def exn(e): return "exn:" + type(e).__name__
def obs_decompose(uri, set_uri_host=True):
    import aiocoap
    m = aiocoap.Message(code=aiocoap.GET)
    try: m.set_request_uri(uri, set_uri_host=set_uri_host)
    except Exception as e: return exn(e), None
    if m.opt.proxy_uri is not None: return {"proxy": m.opt.proxy_uri}, m
    d = {"scheme": m.remote.scheme, "hostinfo": m.remote.hostinfo, "host": m.opt.uri_host, "path": list(m.opt.uri_path), "query": list(m.opt.uri_query)}
    if m.opt.uri_port is not None: d["uri_port_option"] = m.opt.uri_port
    return d, m
def obs_get(m):
    try: return m.get_request_uri()
    except Exception as e: return exn(e)
def obs_roundtrip(uri):
    d1, m = obs_decompose(uri)
    if m is None: return {"d1": d1, "u2": None, "d2": None, "u3": None}
    u2 = obs_get(m)
    if u2.startswith("exn:"): return {"d1": d1, "u2": u2, "d2": None, "u3": None}
    d2, m2 = obs_decompose(u2)
    return {"d1": d1, "u2": u2, "d2": d2, "u3": obs_get(m2) if m2 is not None else None}
def obs_compose(o):
    import aiocoap
    from aiocoap.message import UndecidedRemote
    m = aiocoap.Message(code=aiocoap.GET)
    try:
        m.remote = UndecidedRemote(o["scheme"], o["hostinfo"])
        if o.get("uri_host") is not None: m.opt.uri_host = o["uri_host"]
        if o.get("uri_port") is not None: m.opt.uri_port = o["uri_port"]
        m.opt.uri_path = o["path"]; m.opt.uri_query = o["query"]
        if o.get("proxy_uri") is not None: m.opt.proxy_uri = o["proxy_uri"]
        if o.get("proxy_scheme") is not None: m.opt.proxy_scheme = o["proxy_scheme"]
        u = m.get_request_uri()
    except Exception as e: return {"u": exn(e), "d": None}
    d, _ = obs_decompose(u)
    return {"u": u, "d": d}

def g_opts(o):
    return ("{| r_scheme := %s; r_hostinfo := %s; o_uri_host := %s; o_uri_port := %s; o_uri_path := %s; o_uri_query := %s; o_proxy_uri := %s; o_proxy_scheme := %s |}"
            % (gs(o["scheme"]), gs(o["hostinfo"]), gos(o.get("uri_host")), goz(o.get("uri_port")), gsl(o["path"]), gsl(o["query"]), gos(o.get("proxy_uri")), gos(o.get("proxy_scheme"))))

# ----------------------------------------------------------------------------- generator
def pct(ch, rng):
    return "".join(("%%%02X" if rng.random() < 0.7 else "%%%02x") % b for b in ch.encode("utf8"))
def rand_char(rng):
    k = rng.random()
    if k < 0.5: return rng.choice(UNRESERVED)
    if k < 0.72: return rng.choice(RESERVED_MIX)
    if k < 0.8: return rng.choice(SUB_DELIMS)
    if k < 0.85: return rng.choice(CONTROLS)
    if k < 0.97: return rng.choice(NONASCII)
    return chr(rng.choice([0x80, 0x7FF, 0x800, 0xFFFF, 0x10000, 0x10FFFF, rng.randint(0x80, 0xD7FF), rng.randint(0xE000, 0x10FFFF)]))
def rand_seg(rng):
    k = rng.random()
    if k < 0.12: return ""
    if k < 0.2: return rng.choice(["/", "?", "&", "=", "%", "#", "%41", "a/b", "a&b=c", "..", ".", "%2F", "+", " ", "a%", "%%", "%zz"])
    return "".join(rand_char(rng) for _ in range(rng.randint(1, 6)))
def enc_seg(seg, rng, raw_ok):
    out = ""
    for ch in seg:
        if ch in raw_ok and rng.random() < 0.85: out += ch
        elif ord(ch) > 127 and rng.random() < 0.3: out += ch
        else: out += pct(ch, rng)
    return out
def rand_segs(rng):
    segs = [rand_seg(rng) for _ in range(rng.choice([1, 1, 2, 2, 3, 4]))]
    return ["", ""] if segs == [""] else segs
def mixcase(s, rng): return "".join(c.upper() if rng.random() < 0.4 else c for c in s)

def rand_ipv6_text(rng):
    for _ in range(50):
        groups = [rng.choice([0, 0, 0, 1, 0xFFFF, 0xDB8, 0x2001, 0xFE80, rng.randint(0, 0xFFFF)]) for _ in range(8)]
        hexs = ["%x" % g for g in groups]
        if rng.random() < 0.25: hexs = [h.zfill(rng.choice([1, 2, 3, 4])) if len(h) < 4 else h for h in hexs]
        tail4 = rng.random() < 0.15
        if tail4: hexs = hexs[:6] + ["%d.%d.%d.%d" % (groups[6] >> 8, groups[6] & 255, groups[7] >> 8, groups[7] & 255)]
        runs = [(i, j) for i in range(len(hexs)) for j in range(i + 1, len(hexs) + 1) if all(set(h) <= {"0"} for h in hexs[i:j])]
        if runs and rng.random() < 0.7:
            i, j = rng.choice(runs)
            text = ":".join(hexs[:i]) + "::" + ":".join(hexs[j:])
        else: text = ":".join(hexs)
        if rng.random() < 0.3: text = mixcase(text, rng)
        if rng.random() < 0.25: text += rng.choice(["%25eth0", "%eth0", "%25Eth-1", "%1", "%wlan0.1"])
        r = ip_norm(text)
        if r is not None and r[0] == "Ip6": return text
    return "::1"

def rand_host(rng):
    """-> (text in the URI, expectation dict)"""
    k = rng.random()
    if k < 0.55:
        atoms = []
        for _ in range(rng.randint(1, 10)):
            a = rng.random()
            if a < 0.6: c = rng.choice("abcdefghijklmnopqrstuvwxyz0123456789-"); atoms.append((c, c))
            elif a < 0.72: c = rng.choice("abcdefxyz"); atoms.append((c.upper(), c))
            elif a < 0.82: atoms.append((".", "."))
            elif a < 0.88: c = rng.choice("aZ~.9-"); atoms.append((pct(c, rng), lower_ascii(c)))
            elif a < 0.93: c = rng.choice("äÄ中\U0001F600"); atoms.append((pct(c, rng), c))
            elif a < 0.985: c = rng.choice(SUB_DELIMS); atoms.append((c, c))
            else: c = rng.choice("/%:@ [#?"); atoms.append((pct(c, rng), c))
        if rng.random() < 0.12:
            # raw non-ASCII characters (outside the model: oracle-only). SplitResult.hostname lower-cases (Unicode) up to the first "%" only.
            for _ in range(rng.randint(1, 3)):
                c = rng.choice(RAW_NONASCII_HOST); pos = rng.randrange(len(atoms) + 1)
                before_pct = "%" not in "".join(a for a, _ in atoms[:pos])
                atoms.insert(pos, (c, c.lower() if before_pct else c))
            # atoms after an inserted raw character keep their expectation: ASCII lower-casing is applied to the whole decoded host anyway
        text = "".join(a for a, _ in atoms); dec = "".join(b for _, b in atoms)
        return text, {"kind": "name", "host": dec}
    if k < 0.75:
        octs = [rng.choice([0, 1, 10, 127, 192, 255, rng.randint(0, 255)]) for _ in range(4)]
        text = ".".join(str(o) for o in octs)
        return text, {"kind": "ipv4", "host": None, "literal": text}
    if k < 0.8:
        text = rng.choice(["1..2.3", "1.2.3.256", "1.2.3", "1.2.3.4.5", "01.2.3.4", "1.2.3.4.", "256.1.1.1", "1.2.3.x", "0x1.2.3.4"])
        return text, {"kind": "name-or-literal", "host": None}
    text = rand_ipv6_text(rng)
    return "[" + text + "]", {"kind": "ipv6", "host": None, "literal": ip_norm(text)[1]}

def rand_port(rng):
    k = rng.random()
    if k < 0.55: return "", None
    if k < 0.6: return ":", None
    n = rng.choice([0, 1, 80, 5683, 5684, 65535, rng.randint(0, 65535)])
    t = str(n)
    if rng.random() < 0.2: t = "0" * rng.randint(1, 3) + t
    return ":" + t, n

def rand_uri(rng):
    """grammar-based valid CoAP URI -> (text, expectation)"""
    scheme = rng.choice(COAP_SCHEMES)
    st = mixcase(scheme, rng) if rng.random() < 0.3 else scheme
    ht, hexp = rand_host(rng)
    pt, port = rand_port(rng)
    k = rng.random()
    if k < 0.12: path, ptext = [], ""
    elif k < 0.25: path, ptext = [], "/"
    else:
        path = rand_segs(rng); ptext = "".join("/" + enc_seg(s, rng, PATH_RAW) for s in path)
    k = rng.random()
    if k < 0.45: query, qtext = [], ""
    elif k < 0.5: query, qtext = [], "?"
    else:
        query = rand_segs(rng); qtext = "?" + "&".join(enc_seg(s, rng, QUERY_RAW) for s in query)
    exp = dict(hexp); exp.update({"scheme": scheme, "port": port, "path": path, "query": query})
    return st + "://" + ht + pt + ptext + qtext, exp

BAD_UTF8 = ["%FF", "%C3", "%C3%28", "%ED%A0%80", "%C0%AF", "%E0%80%80", "%F5%80%80%80", "%F4%90%80%80", "%E2%82", "%80", "%F0%9F%98", "%c3ä"]
def rand_malformed(rng):
    """-> (text, class); class names what RFC 7252 / the documentation of set_request_uri says about it"""
    u, exp = rand_uri(rng)
    scheme_end = u.index("://")
    k = rng.randrange(9)
    if k == 8:
        return u[:scheme_end + 3] + rng.choice(NFKC_DELIMS) + rng.choice(["", "/", ":80/p?q"]), "nfkc"
    if k == 0:
        return rng.choice([u[scheme_end + 1:], u[scheme_end + 3:].split(":")[0].split("[")[0] + "/x", "/a/b?c", "", "?q", "//h/p", "a/b"]), "no-scheme"
    if k == 1:
        s = u[:scheme_end]
        return rng.choice([s + ":/a/b", s + ":a", s + "://", s + ":///p", s + "://:80/", s + "://@/x", s + ":", s + "://?q", s + "://:/"]), "no-host"
    if k == 2:
        return u + "#" + rng.choice(["f", "frag/x", "?", "%41", "#"]), "fragment"
    if k == 3:
        ui = rng.choice(["user", "user:pw", ":pw", "a:", "u%40v", "x:y:z"])
        return u[:scheme_end + 3] + ui + "@" + u[scheme_end + 3:], "userinfo"
    if k == 4:
        host = rng.choice(["host", "1.2.3.4", "[::1]", "EX.com"])
        bad = rng.choice(["x", "8o", "65536", "99999", "-1", "+1", " 1", "1 ", "0x10", "1e3", "80a", "١٢", "８０"])
        if not bad.isascii(): host = "host"
        return u[:scheme_end + 3] + host + ":" + bad + rng.choice(["", "/", "/p?q"]), "port"
    if k == 5:
        bad = rng.choice(BAD_UTF8)
        where = rng.randrange(3)
        s = u[:scheme_end + 3]
        if where == 0: return s + "host/a" + bad + "/b", "bad-utf8"
        if where == 1: return s + "host/a?x=" + bad + "&y", "bad-utf8"
        return s + "ho" + (bad if bad.isascii() else "%FF") + "st/a", "bad-utf8"
    if k == 6:
        s = u[:scheme_end + 3]
        return s + rng.choice(["[::1", "::1]", "[1.2.3.4]", "[zz]", "[]", "[[::1]", "[v.x]", "[v1]", "[vg.x]", "[v1.]", "[::1%]", "[:::1]", "[1:2:3:4:5:6:7:8:9]", "[12345::]", "[::1%a%b]"]) + rng.choice(["", "/", ":80/p"]), "brackets"
    s = rng.choice(["http", "https", "HTTP", "ftp", "mailto", "urn", "coapx", "coap+udp", "c"])
    return s + u[scheme_end:], "foreign-scheme"

SPICY = ":/?#[]@%&=+ \t\n\r\\.-_~v0123456789abcdefABCDEFxyzXYZ" + "ä℀８\ud800\U0001F600\x00\x1f\x7f"
def rand_arbitrary(rng):
    k = rng.random()
    if k < 0.7:
        u = rand_uri(rng)[0] if rng.random() < 0.7 else rand_malformed(rng)[0]
        u = list(u)
        for _ in range(rng.choice([1, 1, 2, 3])):
            op = rng.randrange(4); pos = rng.randrange(len(u) + 1)
            if op == 0: u.insert(pos, rng.choice(SPICY))
            elif op == 1 and u: del u[min(pos, len(u) - 1)]
            elif op == 2 and u: u[min(pos, len(u) - 1)] = rng.choice(SPICY)
            elif u: u = u[:pos]
        return "".join(u)
    if k < 0.85:
        return "coap://" + "".join(rng.choice(SPICY) for _ in range(rng.randint(0, 12)))
    return "".join(rng.choice(SPICY) for _ in range(rng.randint(0, 14)))

def rand_uri_host_option(rng):
    k = rng.random()
    if k < 0.3: return None
    if k < 0.7:
        return "".join(rng.choice("abcxyz019-._~" + ("!$'()*+,;=" if rng.random() < 0.2 else "")) for _ in range(rng.randint(1, 8))) + rng.choice(["", ".example", "ä", "中"])
    return rng.choice(["", "EXAMPLE.com", "a/b", "a%41", "a b", "a:b", "::1", "1.2.3.4", "h#f", "h?q", "u@h", "[::1]", "h%", "ä.Ö", "h\ud800"])
def rand_hostinfo(rng):
    k = rng.random()
    if k < 0.45: h = rng.choice(["example.com", "h", "a-b.c", "EXAMPLE.com", "x.y.z"])
    elif k < 0.65: h = "%d.%d.%d.%d" % tuple(rng.randint(0, 255) for _ in range(4))
    elif k < 0.9: h = "[" + rand_ipv6_text(rng) + "]"
    else: return rng.choice(["", "h:", ":80", "[::1", "a:b:c", "[1.2.3.4]:5", "[zz]", "u@h:1", "h:x", "h:65536", "[::1]x:80", "@h", "[v1.x]", "[]"])
    return h + rng.choice(["", "", ":5683", ":0", ":65535", ":080", ":1"])
def rand_opts(rng):
    k = rng.random()
    path = [] if k < 0.15 else ([""] if k < 0.2 else [rand_seg(rng) for _ in range(rng.randint(1, 4))])
    k = rng.random()
    query = [] if k < 0.4 else ([""] if k < 0.45 else [rand_seg(rng) for _ in range(rng.randint(1, 3))])
    o = {"scheme": rng.choice(COAP_SCHEMES), "hostinfo": rand_hostinfo(rng), "uri_host": rand_uri_host_option(rng),
         "uri_port": rng.choice([None, None, None, 0, 1, 5683, 61616, 65535, 70000]), "path": path, "query": query}
    if rng.random() < 0.04: o["proxy_uri"] = rng.choice(["http://x/y", "", "coap://h/p"])
    if rng.random() < 0.06: o["proxy_scheme"] = rng.choice(["http", "", "coap+tcp"])
    if rng.random() < 0.05: o["path"] = o["path"] + ["\ud800x"]
    return o

def rand_quote_input(rng):
    k = rng.random()
    if k < 0.1: return rng.choice(["", "%", "%41", "/", "?&=#", "\ud800", "a\udfffb", "\x7f\x80", " ", "~", "\U0010FFFF"])
    return "".join(rand_char(rng) if rng.random() < 0.97 else rng.choice("\ud800􏰀\udfff") for _ in range(rng.randint(1, 10)))
def rand_unquote_input(rng):
    parts = []
    for _ in range(rng.randint(1, 6)):
        k = rng.random()
        if k < 0.3: parts.append(pct(rand_char(rng), rng))
        elif k < 0.45: parts.append(rng.choice(BAD_UTF8))
        elif k < 0.6: parts.append(rng.choice(["%", "%%", "%4", "%g1", "%1g", "%4%41", "%", "%25", "%2", "%zz", "%a", "%aF", "%Af"]))
        elif k < 0.8: parts.append(rng.choice(UNRESERVED + "/?&=+"))
        else: parts.append(rng.choice(NONASCII + "\ud800"))
    return "".join(parts)
def rand_hostport(rng):
    k = rng.random()
    if k < 0.3: h = mixcase(rng.choice(["example.com", "h", "a-b.c", "x_y", "h%zone", "a%41"]), rng)
    elif k < 0.45: h = "%d.%d.%d.%d" % tuple(rng.randint(0, 255) for _ in range(4))
    elif k < 0.75:
        h = rand_ipv6_text(rng)
        if rng.random() < 0.4: h = "[" + h + "]"
    else: h = rng.choice(["", "[", "]", "a:b", "[::1", "::1]", "[]", "a@b", "[a]b", "h/", "h:1", "[::1%25a]", "[h", "%", "h%", "a]:b["])
    p = rng.choice([None, None, 0, 1, 80, 5683, 65535, 65536, 99999, -1, 10 ** 6, 61616])
    return h, p
def rand_split_input(rng):
    k = rng.random()
    if k < 0.5:
        h, p = rand_hostport(rng)
        s = h if p is None else "%s:%s" % (h if (":" not in h or h.startswith("[")) else "[" + h + "]", p)
    else:
        s = rng.choice(["foo", "foo:5683", "[::1%eth0]:56830", "::1", "a:b:c", "host:", ":80", "[]:1", "host:080", "user@host:1", "u:p@h", "h:x", "h:１", "h:+1", "h: 1",
                        "[::1]x:80", "[::1", "h]:1", "H%Zone:1", "[FE80::1%Eth0]", "a@b@c:5", "h:65535", "h:65536", "h:0", "h:00000", "", "@", "[", "]", ":", "[:]:1"])
    if rng.random() < 0.25 and s:
        pos = rng.randrange(len(s)); s = s[:pos] + rng.choice(":[]@%.0aZ") + s[pos:]
    return s if all(ord(c) < 128 for c in s.split("%")[0].rpartition("@")[2]) else "foo"

STREAM_WEIGHTS = [("roundtrip", 30), ("decompose", 16), ("compose", 16), ("uri_arbitrary", 14), ("quote", 8), ("unquote", 6), ("hostportjoin", 5), ("hostportsplit", 5), ("reuse_after_reject", 4)]

class C16(fw.Property):
    id = "C16"
    coq_props = "Props/C16.v"
    gen_jobs = ["uri_kernels"]
    model_imports = ["Verif.Gen.uri_kernels", "Verif.Model.C16Str", "Verif.Model.C16"]
    quick_budget = 450
    thorough_budget = 20000
    design_ref = "DESIGN.md section 20"
    technique = ("Coq proofs (round-trips by induction over all strings / segment lists) over quoting kernels translated from the source and a hand-written "
                 "executable model of set_request_uri / get_request_uri / urlsplit / unquote; differential correspondence + RFC 7252 6.4/6.5 oracle")
    level_text = ("Theorems (closed under the global context) over quote / quote_nonascii / hostportjoin and the three safe sets regenerated from the source on every run and over the "
                  "hand-written model of urllib.parse (urlsplit, hostname/port, unquote, urlunparse), set_request_uri, get_request_uri and UndecidedRemote: "
                  "UTF-8 and percent-coding round-trip for every Unicode string and every safe set, path/query segment lists round-trip except the stated degenerate "
                  "ones, options -> URI -> options for every non-degenerate option set (Uri-Host with any reserved / non-ASCII characters, IPv4 literal and bracketed IPv6+zone remotes), "
                  "injectivity of composition (distinct resources never collapse), URI -> options -> URI -> options for every accepted URI with a named residue, every rejection of every "
                  "string is MalformedUrlError / IncompleteUrlError, 6.4 host rules, host/port join-split round-trip for names, IPv4 and bracketed IPv6 literals with zones.")
    level_note = ("Trusted: Coq kernel + vm_compute; the str translator translate/jobs/c16.py and Model/C16Str.v intrinsics; the hand model's correspondence (sampled); "
                  "ipaddress (its results are an input table of the model; theorems assume idempotence/alphabet of its normal forms), CPython's UTF-8 codec and urllib.parse "
                  "beyond the modelled functions. A network location with non-ASCII characters (NFKC check, Unicode lower-casing) is outside the model: oracle-only.")
    rule = ("streams: roundtrip = grammar-generated CoAP URIs (6 schemes x name/IPv4/IPv6(+zone)/near-literal hosts x ports x path/query segment lists over the full Unicode "
            "range with reserved characters, empty segments, random over-escaping and hex case) through set_request_uri -> get_request_uri -> set_request_uri, compared with the "
            "model and with the expectation derived from the generator's structure; decompose = malformed classes (no scheme/host, fragment, user info, port, non-UTF-8 escapes, "
            "brackets, foreign scheme) and set_uri_host=False; compose = option sets (degenerate and not) through UndecidedRemote + get_request_uri and back; uri_arbitrary = mutated "
            "and random strings (model where the netloc is ASCII, else oracle only); quote/unquote/hostportjoin/hostportsplit = kernel streams; reuse_after_reject = a rejected URI then an accepted one on the same message (oracle only). "
            "Raw non-ASCII hosts (ä Ä İ ß Ǆ full-width) and NFKC-delimiter hosts are generated in roundtrip / decompose (oracle only, outside the model). Non-trivial = accepted with a "
            "non-empty path, query or host to convert, or rejected; distinct by full input.")
    trusted_base = ["str translator translate/jobs/c16.py + Model/C16Str.v intrinsics (validated by the quote/hostportjoin streams on every run)",
                    "hand-written Model/C16.v incl. its model of urllib.parse.urlsplit/unquote/urlunparse of CPython 3.12 (validated by the correspondence streams)",
                    "ipaddress.ip_address / str(): supplied to the model as a table, assumed idempotent on its normal forms in the theorems",
                    "CPython str.lower / unicodedata for non-ASCII network locations (not modelled: oracle-only cases)"]
    assumptions = ["strings are sequences of Unicode scalar values wherever quoting is involved (a lone surrogate makes str.encode raise, modelled as UnicodeEncodeError)",
                   "get_request_uri is modelled for request messages without Uri-Path-Abbrev, client side",
                   "set_request_uri is applied to a fresh Message (as Message(uri=...) does) and a Message on which it raised is discarded: the Uri-Path / Uri-Query / remote "
                   "it assigns before the port and literal checks stay on the message after a late MalformedUrlError (not modelled; the reuse_after_reject stream checks that "
                   "nothing of it survives the next accepted call); a message that already carries Uri-Host / Proxy-Uri from an earlier ACCEPTED call is application misuse"]

    def setup(self):
        import aiocoap.message  # extends uses_netloc
        base = ['', 'ftp', 'http', 'gopher', 'nntp', 'telnet', 'imap', 'wais', 'file', 'mms', 'https', 'shttp', 'snews', 'prospero', 'rtsp', 'rtsps', 'rtspu',
                'rsync', 'svn', 'svn+ssh', 'sftp', 'nfs', 'git', 'git+ssh', 'ws', 'wss', 'itms-services']
        un = list(urllib.parse.uses_netloc)
        assert un[:len(base)] == base and set(un[len(base):]) <= set(aiocoap.message.coap_schemes), "urllib.parse.uses_netloc differs from Model/C16.v"
        # urllib.parse.uses_params is NOT asserted (round 7, seed C16d): a CoAP scheme registered there makes urlparse() cut ";params" off the last
        # path segment, which set_request_uri never reads -> the corpus URIs with ";" in the last segment (corpus/C16/boundary.json) then disagree with
        # the model (for which ";" is an ordinary path character) and fail the independent RFC 7252 section 6.4 oracle: a reported failing input, not a crash.
        assert sys.version_info[:2] == (3, 12) and sys.int_info.default_max_str_digits == 4300

    # ---------------------------------------------------------------- cases
    def gen_cases(self, tier, rng, n):
        names = [s for s, w in STREAM_WEIGHTS for _ in range(w)]
        for k in range(n):
            stream = names[rng.randrange(len(names))]
            if stream == "roundtrip":
                u, exp = rand_uri(rng); yield stream, {"uri": u, "expect": exp}
            elif stream == "decompose":
                if rng.random() < 0.75:
                    u, cls = rand_malformed(rng); yield stream, {"uri": u, "set_uri_host": True, "class": cls}
                else:
                    u, exp = rand_uri(rng); yield stream, {"uri": u, "set_uri_host": False, "class": "valid", "expect": exp}
            elif stream == "compose": yield stream, rand_opts(rng)
            elif stream == "uri_arbitrary": yield stream, {"uri": rand_arbitrary(rng)}
            elif stream == "quote": yield stream, {"which": rng.choice(["path", "query", "nonascii"]), "s": rand_quote_input(rng)}
            elif stream == "unquote": yield stream, {"s": rand_unquote_input(rng)}
            elif stream == "hostportjoin":
                h, p = rand_hostport(rng); yield stream, {"host": h, "port": p}
            elif stream == "reuse_after_reject":
                # a rejected call, then an accepted one on the SAME message (oracle-only): nothing of the rejected URI may survive
                bad = rng.choice([None, "coap://h:x/a/b?c=d", "coap://h%FF/a/b?c", "coap://[v1.x]/a?b", "coap://h/a?%FF"]) or rand_malformed(rng)[0]
                good = rng.choice(["coap://h2", "coap://1.2.3.4", "coap://[::1]/", "coap://h2/?"]) if rng.random() < 0.5 else rand_uri(rng)[0]
                yield stream, {"bad": bad, "good": good}
            else: yield stream, {"s": rand_split_input(rng)}

    # ---------------------------------------------------------------- implementation
    def impl(self, stream, inp):
        import aiocoap.message as msg
        from aiocoap.util import hostportjoin, hostportsplit, quote_nonascii
        if stream in ("roundtrip", "uri_arbitrary"): return obs_roundtrip(inp["uri"])
        if stream == "decompose": return obs_decompose(inp["uri"], inp.get("set_uri_host", True))[0]
        if stream == "compose": return obs_compose(inp)
        if stream == "reuse_after_reject":
            import aiocoap
            m = aiocoap.Message(code=aiocoap.GET)
            try: m.set_request_uri(inp["bad"]); first = "accepted"
            except Exception as e: first = exn(e)
            left = {"path": list(m.opt.uri_path), "query": list(m.opt.uri_query), "host": m.opt.uri_host, "remote": None if m.remote is None else m.remote.hostinfo}
            def full(mm):
                return {"proxy": mm.opt.proxy_uri, "host": mm.opt.uri_host, "port": mm.opt.uri_port, "path": list(mm.opt.uri_path), "query": list(mm.opt.uri_query),
                        "remote": None if mm.remote is None else [mm.remote.scheme, mm.remote.hostinfo]}
            try: m.set_request_uri(inp["good"]); after = full(m)
            except Exception as e: after = exn(e)
            f = aiocoap.Message(code=aiocoap.GET)
            try: f.set_request_uri(inp["good"]); fresh = full(f)
            except Exception as e: fresh = exn(e)
            return {"first": first, "left": left, "after": after, "fresh": fresh}
        if stream == "quote":
            f = {"path": msg._quote_for_path, "query": msg._quote_for_query, "nonascii": quote_nonascii}[inp["which"]]
            try: return f(inp["s"])
            except Exception as e: return exn(e)
        if stream == "unquote":
            try: return urllib.parse.unquote(inp["s"], errors="strict")
            except Exception as e: return exn(e)
        if stream == "hostportjoin":
            try: j = hostportjoin(inp["host"], inp["port"])
            except Exception as e: return {"joined": exn(e), "split": None}
            try: s = list(hostportsplit(j))
            except Exception as e: s = exn(e)
            return {"joined": j, "split": s}
        if stream == "hostportsplit":
            try: return list(hostportsplit(inp["s"]))
            except Exception as e: return exn(e)
        raise ValueError("unknown stream " + stream)

    # ---------------------------------------------------------------- model
    def model(self, stream, inp):
        if stream in ("uri_arbitrary", "roundtrip", "decompose"):
            # the model covers ASCII network locations only (Model/C16.v); elsewhere these streams are oracle-only
            u = inp["uri"]
            try: nl = urllib.parse.urlsplit(u).netloc
            except ValueError: nl = u
            if not nl.isascii(): return None
        if stream in ("roundtrip", "uri_arbitrary"):
            return "run_roundtrip_staged %s %s" % (ip_table([inp["uri"]]), gs(inp["uri"]))
        if stream == "decompose":
            return "run_decompose %s %s %s" % (ip_table([inp["uri"]]), gs(inp["uri"]), gbool(inp.get("set_uri_host", True)))
        if stream == "compose":
            return "run_compose_back %s %s" % (ip_table([inp["hostinfo"], inp.get("uri_host")]), g_opts(inp))
        if stream == "quote":
            if inp["which"] == "nonascii": return "quote_nonascii %s" % gs(inp["s"])
            return "quote %s %s" % ("quote_for_path_chars" if inp["which"] == "path" else "quote_for_query_chars", gs(inp["s"]))
        if stream == "unquote": return "unquote %s" % gs(inp["s"])
        if stream == "hostportjoin": return "run_hostportjoin_split %s %s" % (gs(inp["host"]), goz(inp["port"]))
        if stream == "hostportsplit": return "hostportsplit %s" % gs(inp["s"])
        return None
    def decode(self, stream, inp, p):
        p = fw.plain(p)
        if stream in ("roundtrip", "uri_arbitrary"):
            d1, u2, d2, u3 = p
            return {"d1": dM(d1, ddec), "u2": dopt(u2, lambda x: dM(x, dstr)), "d2": dopt(d2, lambda x: dM(x, ddec)), "u3": dopt(u3, lambda x: dM(x, dstr))}
        if stream == "decompose": return dM(p, ddec)
        if stream == "compose":
            u, d = p
            return {"u": dM(u, dstr), "d": dopt(d, lambda x: dM(x, ddec))}
        if stream in ("quote", "unquote"): return dM(p, dstr)
        if stream == "hostportjoin":
            j, s = p
            return {"joined": dM(j, dstr), "split": dopt(s, lambda x: dM(x, dsplit))}
        if stream == "hostportsplit": return dM(p, dsplit)

    # ---------------------------------------------------------------- oracle: RFC 7252 6.4 / 6.5 and the documented errors, on the implementation's behaviour
    DOCUMENTED = ("exn:MalformedUrlError", "exn:IncompleteUrlError")
    def _undocumented(self, uri, e):
        """classify an exception other than the documented two by the shape of the input (signature of a finding)"""
        c = clean(uri)
        if e == "exn:ValueError" and re.search(r"\[[vV][0-9a-fA-F]+\.[^\]/?#]+\]", c): return "C16:bare-ValueError:ipvfuture-host"
        if e == "exn:ValueError" and re.search(r"[0-9]{4301}", c): return "C16:bare-ValueError:int-digit-limit"
        return "C16:undocumented-exception:" + e[4:]
    def _split(self, hostinfo):
        """independent reading of host[:port] / [v6][:port] (no user info): (lower-cased host, port) or None"""
        m = re.fullmatch(r"(?:[^@]*@)?(?:\[([^\[\]]*)\]|([^:\[\]]*))(?::([0-9]*))?", hostinfo, flags=re.S)
        if not m: return None
        h = m.group(1) if m.group(1) is not None else m.group(2)
        return lower_before_pct(h), (int(m.group(3)) if m.group(3) else None)
    def _authority(self, d):
        sp = self._split(d["hostinfo"])
        if sp is None: return None
        return (d["host"] if d["host"] is not None else sp[0]), sp[1]
    def _check_roundtrip(self, uri, d1, u2, d2, u3):
        if not isinstance(d1, dict) or "proxy" in d1: return None
        texts = [d1["host"] or ""] + d1["path"] + d1["query"]
        if not all(valid_str(t) for t in texts): return None          # lone surrogates cannot be put into a URI (or on the wire)
        reserved_host = d1["host"] is not None and not all(c in UNRESERVED or c in SUB_DELIMS or ord(c) > 127 for c in d1["host"])
        tag = ""
        if reserved_host and (ip_norm(d1["host"]) or ("",))[0] == "Ip6":
            # RFC 7252 6.4 step 5: an IP literal is not sent as Uri-Host; the code tests netloc.startswith("[") which an empty user info defeats
            return ("C16:ip-literal-sent-as-uri-host", "%r -> Uri-Host %r although the host is an IP literal" % (uri, d1["host"]))
        if reserved_host:
            # (repaired by 76b5301; the signature is kept so that a regression is a VIOLATION) get_request_uri did not percent-encode reserved characters of Uri-Host
            ok = (isinstance(u2, str) and not u2.startswith("exn:") and isinstance(d2, dict) and "proxy" not in d2 and
                  all(d1[f] == d2[f] for f in ("path", "query", "scheme", "host")) and self._authority(d1) == self._authority(d2) and u3 == u2)
            return None if ok else ("C16:compose-host-not-escaped", "%r -> Uri-Host %r -> get_request_uri %r -> %r" % (uri, d1["host"], u2, d2))
        if u2 is None or u2.startswith("exn:"): return ("C16:compose-exception:%s%s" % ((u2 or "")[4:], tag), "get_request_uri raised %s after set_request_uri(%r)" % (u2, uri))
        if not isinstance(d2, dict) or "proxy" in d2: return ("C16:recompose-rejected" + tag, "%r -> %r which set_request_uri answers with %r" % (uri, u2, d2))
        for f in ("path", "query", "scheme"):
            if d1[f] != d2[f]: return ("C16:roundtrip-differs:%s%s" % (f, tag), "%r -> %s %r -> URI %r -> %s %r" % (uri, f, d1[f], u2, f, d2[f]))
        if self._authority(d1) != self._authority(d2):
            return ("C16:roundtrip-differs:authority" + tag, "%r -> %r -> URI %r -> %r" % (uri, self._authority(d1), u2, self._authority(d2)))
        if d1["host"] != d2["host"] and not (d1["host"] is not None and looks_ipv4(d1["host"]) and d2["host"] is None):
            return ("C16:roundtrip-differs:uri-host" + tag, "%r -> Uri-Host %r -> URI %r -> Uri-Host %r" % (uri, d1["host"], u2, d2["host"]))
        if u3 != u2: return ("C16:not-normal-form" + tag, "composed URI %r composes again to something else" % (u2,))
        return None

    def oracle(self, stream, inp, res):
        if isinstance(res, dict) and "harness_exception" in res:
            return ("C16:crash:" + res["where"], "implementation raised %s: %s" % (res["harness_exception"], res.get("text")))
        if stream in ("roundtrip", "uri_arbitrary", "decompose"):
            uri = inp["uri"]
            d1 = res["d1"] if stream != "decompose" else res
            if isinstance(d1, str) and d1 not in self.DOCUMENTED:
                return (self._undocumented(uri, d1), "set_request_uri(%r) raised %s, documented are MalformedUrlError / IncompleteUrlError" % (uri, d1[4:]))
            if isinstance(d1, dict) and "uri_port_option" in d1: return ("C16:uri-port-set", "set_request_uri set Uri-Port for %r" % (uri,))
            if stream != "decompose":
                d2 = res["d2"]
                if isinstance(d2, str) and d2 not in self.DOCUMENTED:
                    return (self._undocumented(res["u2"], d2), "set_request_uri(%r) raised %s" % (res["u2"], d2[4:]))
            exp = inp.get("expect")
            cls = inp.get("class")
            if cls is not None and cls != "valid":
                want = {"no-scheme": "exn:IncompleteUrlError", "foreign-scheme": {"proxy": uri}}.get(cls, "exn:MalformedUrlError")
                if d1 != want:
                    if isinstance(d1, dict): return ("C16:accepted-malformed:" + cls, "%r (%s) was accepted as %r" % (uri, cls, d1))
                    return ("C16:wrong-error:%s:%s" % (cls, d1[4:]), "%r (%s) raised %s, expected %r" % (uri, cls, d1[4:], want))
            if exp is not None:
                if not isinstance(d1, dict) or "proxy" in d1: return ("C16:valid-uri-rejected", "valid CoAP URI %r answered with %r" % (uri, d1))
                if d1["scheme"] != exp["scheme"]: return ("C16:decompose-wrong:scheme", "%r -> scheme %r" % (uri, d1["scheme"]))
                if d1["path"] != exp["path"]: return ("C16:decompose-wrong:path", "%r -> Uri-Path %r, expected %r" % (uri, d1["path"], exp["path"]))
                if d1["query"] != exp["query"]: return ("C16:decompose-wrong:query", "%r -> Uri-Query %r, expected %r" % (uri, d1["query"], exp["query"]))
                sp = self._split(d1["hostinfo"])
                if sp is None or sp[1] != exp["port"]: return ("C16:decompose-wrong:port", "%r -> remote %r, expected port %r" % (uri, d1["hostinfo"], exp["port"]))
                want_host = None
                if exp["kind"] == "name" and inp.get("set_uri_host", True): want_host = lower_ascii(exp["host"])
                if exp["kind"] == "name-or-literal": want_host = d1["host"]
                if exp["kind"] == "name" and looks_ipv4(lower_ascii(exp["host"])) and "%" not in uri.split("://", 1)[1].split("/")[0]: want_host = None
                if d1["host"] != want_host: return ("C16:decompose-wrong:uri-host", "%r -> Uri-Host %r, expected %r" % (uri, d1["host"], want_host))
                if exp["kind"] in ("ipv4", "ipv6") and sp[0] != exp["literal"]:
                    return ("C16:decompose-wrong:literal", "%r -> remote %r, expected literal %r" % (uri, d1["hostinfo"], exp["literal"]))
                if exp["kind"] == "name" and sp[0] != lower_before_pct(uri.split("://", 1)[1].split("/")[0].split("?")[0].split(":")[0]):
                    return ("C16:decompose-wrong:remote", "%r -> remote %r" % (uri, d1["hostinfo"]))
            if stream != "decompose": return self._check_roundtrip(uri, d1, res["u2"], res["d2"], res["u3"])
            return None
        if stream == "reuse_after_reject":
            # "rejected ... and nothing else": what a rejected call leaves on the message (Uri-Path / Uri-Query / remote are assigned before the
            # port and literal checks, see notes) must not survive the next accepted call on the same message
            if res["first"] == "accepted" or (isinstance(res["first"], str) and res["first"] not in self.DOCUMENTED): return None
            if res["after"] != res["fresh"]:
                return ("C16:rejected-call-leaks", "after the rejected %r (left: %r) set_request_uri(%r) gives %r, on a fresh message %r" % (inp["bad"], res["left"], inp["good"], res["after"], res["fresh"]))
            return None
        if stream == "compose":
            o = inp
            if o.get("proxy_uri") is not None:
                return None if (res["u"] == o["proxy_uri"] or res["u"] == "exn:ValueError") else ("C16:proxy-uri-not-returned", "Proxy-Uri %r composed to %r" % (o["proxy_uri"], res["u"]))
            sp = self._split(o["hostinfo"])
            h = o.get("uri_host")
            texts = [h or ""] + o["path"] + o["query"]
            hostinfo_ok = (sp is not None and "@" not in o["hostinfo"] and (sp[1] is None or sp[1] <= 65535) and o["hostinfo"].isascii() and
                           (looks_ipv4(sp[0]) or (o["hostinfo"].startswith("[") and (ip_norm(sp[0]) or ("", ""))[0] == "Ip6" and "]" in o["hostinfo"] and
                                                 re.fullmatch(r"\[[^\[\]]*\](:[0-9]*)?", o["hostinfo"]))
                            or ("[" not in o["hostinfo"] and "]" not in o["hostinfo"] and
                                ((h is not None and re.fullmatch(r"[A-Za-z0-9._~-]*", sp[0] or "")) or re.fullmatch(r"[a-z0-9._~-]+", sp[0] or "")))))
            nondegenerate = (o["path"] != [""] and o["query"] != [""] and all(valid_str(t) for t in texts) and hostinfo_ok
                             and (h is None or (h != "" and not any("A" <= c <= "Z" for c in h) and ip_norm(h.removeprefix("[").removesuffix("]")) is None and not looks_ipv4(h)))
                             and (o.get("uri_port") is None or 0 < o["uri_port"] <= 65535)
                             and not o.get("proxy_scheme"))
            if not nondegenerate: return None
            if res["u"].startswith("exn:"): return ("C16:compose-exception:" + res["u"][4:], "non-degenerate option set %r: get_request_uri raised %s" % (o, res["u"]))
            d = res["d"]
            if not isinstance(d, dict) or "proxy" in d: return ("C16:composed-uri-rejected", "%r composed to %r which set_request_uri answers with %r" % (o, res["u"], d))
            if d["path"] != o["path"]: return ("C16:collapse:path", "Uri-Path %r -> %r -> %r" % (o["path"], res["u"], d["path"]))
            if d["query"] != o["query"]: return ("C16:collapse:query", "Uri-Query %r -> %r -> %r" % (o["query"], res["u"], d["query"]))
            if d["scheme"] != o["scheme"]: return ("C16:collapse:scheme", "scheme %r -> %r" % (o["scheme"], d["scheme"]))
            want = (h if h is not None else sp[0], o.get("uri_port") or sp[1])
            if ip_norm(want[0]) and ip_norm(want[0])[0] == "Ip6": want = (ip_norm(want[0])[1], want[1])
            if self._authority(d) != want: return ("C16:collapse:authority", "%r composed to %r which means authority %r, expected %r" % (o, res["u"], self._authority(d), want))
            if h is not None and d["host"] != h: return ("C16:collapse:uri-host", "Uri-Host %r -> %r -> %r" % (h, res["u"], d["host"]))
            return None
        if stream == "quote":
            s = inp["s"]
            if isinstance(res, str) and res.startswith("exn:"):
                return None if (res == "exn:UnicodeEncodeError" and not valid_str(s)) else ("C16:quote-exception", "quote(%r) raised %s" % (s, res))
            if not valid_str(s): return ("C16:quote-surrogate", "quote(%r) returned %r" % (s, res))
            safe = {"path": PATH_RAW, "query": QUERY_RAW, "nonascii": "".join(chr(i) for i in range(128))}[inp["which"]]
            if not re.fullmatch(r"(?:[%s]|%%[0-9A-F]{2})*" % re.escape(safe), res, flags=re.S): return ("C16:quote-alphabet:" + inp["which"], "quote(%r) = %r leaves its alphabet" % (s, res))
            if inp["which"] != "nonascii" or "%" not in s:
                if urllib.parse.unquote(res, errors="strict") != s: return ("C16:quote-not-invertible:" + inp["which"], "unquote(quote(%r)) = %r" % (s, urllib.parse.unquote(res)))
            if inp["which"] != "nonascii" and len(res) != sum(1 if c in safe else 3 * len(c.encode()) for c in s): return ("C16:quote-length:" + inp["which"], "quote(%r) = %r" % (s, res))
            return None
        if stream == "unquote":
            if isinstance(res, str) and res.startswith("exn:") and res != "exn:UnicodeDecodeError": return ("C16:unquote-exception", "unquote(%r) raised %s" % (inp["s"], res))
            return None
        if stream == "hostportjoin":
            h, p = inp["host"], inp["port"]
            bare = h[1:-1] if h.startswith("[") and h.endswith("]") else h
            klass = ("name" if re.fullmatch(r"[A-Za-z0-9._~-]+(%[A-Za-z0-9._~-]+)?", h) else
                     "ipv6" if (ip_norm(bare) or ("",))[0] == "Ip6" else None)
            if klass and (p is None or 0 <= p <= 65535):
                if isinstance(res["joined"], str) and res["joined"].startswith("exn:"): return ("C16:hostportjoin-exception", "hostportjoin(%r, %r) raised %s" % (h, p, res["joined"]))
                if res["split"] != [lower_before_pct(bare), p]:
                    return ("C16:hostport-roundtrip:" + klass, "hostportsplit(hostportjoin(%r, %r) = %r) = %r" % (h, p, res["joined"], res["split"]))
            if isinstance(res["split"], str) and res["split"] != "exn:ValueError": return ("C16:hostportsplit-exception", "hostportsplit(%r) raised %s" % (res["joined"], res["split"]))
            return None
        if stream == "hostportsplit":
            if isinstance(res, str): return None if res == "exn:ValueError" else ("C16:hostportsplit-exception", "hostportsplit(%r) raised %s" % (inp["s"], res))
            if res[1] is not None and not (0 <= res[1] <= 65535): return ("C16:hostportsplit-port-range", "hostportsplit(%r) = %r" % (inp["s"], res))
            m = re.fullmatch(r"([a-z0-9.-]+):([0-9]+)", inp["s"])
            if m and int(m.group(2)) <= 65535 and res != [m.group(1), int(m.group(2))]: return ("C16:hostportsplit-wrong", "hostportsplit(%r) = %r" % (inp["s"], res))
            return None
        return None

    def nontrivial(self, stream, inp, res):
        key = fw.jdump([stream, {k: v for k, v in inp.items() if k != "expect"}])
        if stream == "reuse_after_reject":
            lf = res.get("left", {}) if isinstance(res, dict) else {}
            return key if (res.get("first", "").startswith("exn:") and (lf.get("path") or lf.get("query") or lf.get("remote"))) else None
        if stream in ("roundtrip", "uri_arbitrary"):
            d1 = res.get("d1") if isinstance(res, dict) else None
            if isinstance(d1, dict) and "proxy" not in d1 and not (d1["path"] or d1["query"] or d1["host"]): return None
            return key
        return key

PROPERTY = C16()
