"""C09 — every request that reaches a server context gets exactly one final response reflecting the handler outcome.

Correspondence of Model/C09.v (rendering decision + the two Pipes of a request) and Model/C09Stack.v (token manager /
message manager around it) with the real Context -> TokenManager -> MessageManager stack on a fake transport, driven by
event scripts in virtual time; plus the property oracle on the datagrams the implementation put on the wire."""
import asyncio, gc, logging, re, warnings
import fw
from fw import gz, gbool, glist, gopt

CRE_CLASSES = ["BadRequest", "Unauthorized", "BadOption", "Forbidden", "NotFound", "MethodNotAllowed", "NotAcceptable",
               "RequestEntityIncomplete", "Conflict", "PreconditionFailed", "RequestEntityTooLarge", "UnsupportedContentFormat",
               "UnprocessableEntity", "TooManyRequests", "InternalServerError", "NotImplemented", "BadGateway",
               "ServiceUnavailable", "GatewayTimeout", "ProxyingNotSupported", "HopLimitReached",
               "UnallowedMethod", "UnsupportedMethod", "NoRequestInterface", "IncompleteException", "ConstructionRenderableError"]
OTHER_EXC = ["ValueError", "KeyError", "AssertionError", "RuntimeError", "ZeroDivisionError", "TypeError", "AttributeError", "OSError",
             "Exception", "LookupError", "TimeoutError", "StopAsyncIteration", "NotImplementedError", "UnicodeError",
             "ResponseWrappingError", "LibraryShutdown", "NetworkError", "Error", "UnparsableMessage", "NotObservable"]
OTHER_VALUES = ["str", "int", "bytes", "tuple", "dict", "float"]
SECRET = "SECRET"
METHOD_NAMES = {1: "get", 2: "post", 3: "put", 4: "delete", 5: "fetch", 6: "patch", 7: "ipatch"}
TYPES = ["CON", "NON", "ACK", "RST"]
NR_VALUES = [None, None, None, None, None, 0, 2, 8, 16, 24, 26, 10, 127]
LOG_KINDS = [("An exception occurred while rendering a resource", "LogException"),
             ("Rendering the renderable exception failed", "LogRenderFailed"),
             ("Discarded exception in", "LogDiscarded"),
             ("Requests shouldn't receive errors", "LogTmError"),
             ("Response %r added after", "LogLateResponse")]


# ----------------------------------------------------------------------------------------------- Gallina terms
def g_msg(v):
    return "{| m_code := %s; m_payload := %s; m_cf := %s; m_nr := %s; m_obs := None |}" % (gopt(v["code"], gz), fw.gbytes(v["payload"]), gopt(v["cf"], gz), gopt(v["nr"], gz))
def g_mode(m):
    if isinstance(m, dict): return "(ORaise %s)" % g_exc(m["raise"])
    return {"accept": "OAccept", "decline": "ODecline", "dereg": "OAcceptDeregister"}[m]
def is_obs(kind): return isinstance(kind, dict)
def g_value(v):
    k = v["v"]
    if k == "msg": return "(VMsg %s)" % g_msg(v)
    return {"noresponse": "VNoResponse", "none": "VNone", "other": "VOther"}[k]
def g_exc(e):
    k = e["e"]
    if k == "cre":
        t = "CNotStr" if e.get("badtext") else ("CDefault" if e["text"] is None else "(CText %s)" % fw.gbytes(e["text"].encode("utf8")))
        return "(cre E_%s %s)" % (e["cls"], t)
    if k == "custom":
        return "(ERenderable TMRaises)" if e["tm"] == "raises" else "(ERenderable (TMReturn %s))" % g_value(e["tm"])
    return "EOther"
def g_raction(a):
    if a[0] == "add": return "RAdd %s %s" % (g_value(a[1]), gbool(a[2]))
    if a[0] == "raise": return "RRaise %s" % g_exc(a[1])
    return "RReturn"
def g_outcome(o):
    if o["k"] == "return": return "(Return %s)" % g_value(o["value"])
    if o["k"] == "raise": return "(Raise_ %s)" % g_exc(o["exc"])
    return "(Script %s)" % glist([g_raction(a) for a in o["actions"]])
def g_request(r):
    return ("{| r_id := %s; r_remote := %s; r_token := %s; r_mid := %s; r_con := %s; r_code := %s; r_path := %s; r_nr := %s; r_obs := %s; r_slow := %s; r_outcome := %s |}"
            % (gz(r["id"]), gz(r["remote"]), fw.gbytes(r["token"]), gz(r["mid"]), gbool(r["con"]), gz(r["code"]), glist([gz(x) for x in r["path"]]),
               gopt(r["nr"], gz), gopt(r.get("obs"), gz), gbool(r["slow"]), g_outcome(r["outcome"])))
def g_site(s):
    if s is None: return "None"
    return "(Some %s)" % glist(["(%s, %s)" % (glist([gz(x) for x in e["path"]]), g_kind(e["kind"])) for e in s])
def g_kind(k):
    if k == "raw": return "Raw"
    if is_obs(k): return "Observable %s %s" % (glist([gz(m) for m in k["obs"]]), g_mode(k["mode"]))
    return "Plain %s" % glist([gz(m) for m in k])
def methods_of(k): return k["obs"] if is_obs(k) else k


# ----------------------------------------------------------------------------------------------- generators
def rnd_payload(rng):
    return [rng.randrange(256) for _ in range(rng.choice([0, 0, 1, 2, 5, 17]))]
def rnd_msg(rng, code="any"):
    if code == "any":
        code = rng.choice([None, None, None, 65, 66, 67, 68, 69, 95, 64, 128, 132, 133, 160, 163, 191, 100, 140])
    return {"v": "msg", "code": code, "payload": rnd_payload(rng), "cf": rng.choice([None, None, 0, 40, 60, 65000]), "nr": rng.choice([None, None, None, None, 0, 2, 8, 16, 26])}
def rnd_value(rng, weights=(70, 8, 8, 14)):
    k = rng.choices(["msg", "noresponse", "none", "other"], weights)[0]
    if k == "msg": return rnd_msg(rng)
    if k == "other": return {"v": "other", "py": rng.choice(OTHER_VALUES)}
    return {"v": k}
def rnd_exc(rng, idx):
    k = rng.random()
    if k < 0.45:
        t = rng.random()
        return {"e": "cre", "cls": rng.choice(CRE_CLASSES), "text": None if t < 0.4 else rng.choice(["diag-%d" % idx, "", "déjà vu %d" % idx, "x" * 40]),
                "badtext": rng.choice(["bytes", "int"]) if t > 0.9 else None}
    if k < 0.65:
        tm = rng.choice(["raises", "raises", {"v": "none"}, {"v": "none"}, "msg", "msg", {"v": "other", "py": rng.choice(OTHER_VALUES)}, {"v": "noresponse"}])
        if tm == "msg": tm = rnd_msg(rng, rng.choice([128, 132, 160, 163, 69, 95, 191, 143])); tm["nr"] = rng.choice([None, None, 8, 16])
        return {"e": "custom", "tm": tm}
    return {"e": "other", "cls": rng.choice(OTHER_EXC)}
def rnd_outcome(rng, idx, raw=False):
    if raw:
        acts = []
        for _ in range(rng.choice([0, 1, 1, 2, 2, 3, 4, 6])):
            k = rng.random()
            if k < 0.7:
                v = rnd_value(rng, (80, 5, 7, 8))
                if v["v"] == "msg":
                    if v["code"] is None: v["code"] = rng.choice([69, 68, 65, 132, 160])
                acts.append(["add", v, rng.random() < 0.45])
                if v["v"] in ("other", "noresponse") and rng.random() < 0.5:      # ... and does not catch what add_response raises
                    acts.append(["raise", {"e": "other", "cls": "AttributeError"}]); break
            elif k < 0.9: acts.append(["raise", rnd_exc(rng, idx)]); break
            else: acts.append(["return"]); break
        return {"k": "script", "actions": acts}
    k = rng.random()
    if k < 0.5: return {"k": "return", "value": rnd_value(rng)}
    return {"k": "raise", "exc": rnd_exc(rng, idx)}

_CRE = lambda cls, text=None: {"e": "cre", "cls": cls, "text": text, "badtext": None}
OBS_ENTRIES = [
    {"path": [20], "kind": {"obs": [1, 2, 3, 4, 5, 6, 7], "mode": "accept", "flavour": "resource"}},
    {"path": [21], "kind": {"obs": [1, 2, 3, 4, 5, 6, 7], "mode": "decline", "flavour": "resource"}},
    {"path": [22], "kind": {"obs": [1, 5], "mode": "decline", "flavour": "mixed"}},
    {"path": [23], "kind": {"obs": [1, 2, 5], "mode": "accept", "flavour": "mixed"}},
    {"path": [24], "kind": {"obs": [1, 5], "mode": "dereg", "flavour": "resource"}},
    {"path": [25], "kind": {"obs": [1, 5], "mode": {"raise": {"e": "other", "cls": "RuntimeError"}}, "flavour": "resource"}},
    {"path": [26], "kind": {"obs": [1, 5], "mode": {"raise": _CRE("ServiceUnavailable", "observers full")}, "flavour": "mixed"}},
]
OBS_PATHS = [e["path"] for e in OBS_ENTRIES]
SITES = [
    [{"path": [1], "kind": [1, 2, 3, 4, 5, 6, 7]}, {"path": [2], "kind": [1]}, {"path": [3, 4], "kind": [2, 3, 4]}, {"path": [5], "kind": "raw"}, {"path": [], "kind": [1, 5]}],
    [{"path": [1], "kind": [1, 2, 3, 4, 5, 6, 7]}, {"path": [5], "kind": "raw"}, {"path": [6], "kind": []}],
    [{"path": [1], "kind": [1, 2, 3, 4, 5, 6, 7]}, {"path": [5], "kind": "raw"}] + OBS_ENTRIES,
]
def rnd_request(rng, idx, site, used_mids, remote=None, token=None, raw_bias=0.0, obs_bias=0.0):
    remote = rng.randrange(3) if remote is None else remote
    while True:
        mid = rng.randrange(65536)
        if (remote, mid) not in used_mids: used_mids.add((remote, mid)); break
    if token is None: token = [rng.randrange(256) for _ in range(rng.choice([0, 1, 1, 2, 4, 8]))]
    p = rng.random()
    if site is None: path = rng.choice([[1], [], [9]])
    elif rng.random() < raw_bias: path = [5]
    elif rng.random() < obs_bias and any(is_obs(e["kind"]) for e in site): path = rng.choice([e["path"] for e in site if is_obs(e["kind"])])
    elif p < 0.12: path = rng.choice([[9], [1, 1], [3], [4], [3, 4, 1], [0]] + ([[]] if not any(e["path"] == [] for e in site) else []))
    else: path = rng.choice([e["path"] for e in site])
    raw = site is not None and any(e["path"] == path and e["kind"] == "raw" for e in site)
    code = rng.choice([1, 1, 1, 2, 3, 4, 5, 6, 7, rng.choice([8, 9, 30, 31])])
    kind = next((e["kind"] for e in site if e["path"] == path), None) if site is not None else None
    out = rnd_outcome(rng, idx, raw)
    nr = rng.choice(NR_VALUES)
    if out["k"] == "return" and out["value"]["v"] == "msg" and rng.random() < 0.06:
        # a Message whose code is not a response code (empty, request, reserved, signalling)
        out["value"]["code"] = rng.choice([0, 1, 2, 31, 32, 63, 192, 200, 225, 255])
    obs = rng.choice([None, None, None, None, None, None, 0, 1, 7])
    if is_obs(kind): obs = rng.choice([0, 0, 0, 0, None, 1, 2]); code = rng.choice([1, 1, 1, 5, 5, 2, code])
    return {"obs": obs, "id": idx, "remote": remote, "token": token, "mid": mid, "con": rng.random() < 0.6, "code": code, "path": path,
            "nr": nr, "slow": rng.random() < 0.5, "mcast": rng.random() < 0.1, "outcome": out}

TICKS = [1, 50000, 99999, 100000, 100001, 150000, 200000]
def eff_slow(site, r):
    """a slow handler only delays requests that reach it"""
    if not r["slow"] or site is None: return False
    res = next((e for e in site if e["path"] == r["path"]), None)
    if res is None: return False
    k = res["kind"]
    if k == "raw": return True
    if is_obs(k) and isinstance(k["mode"], dict) and r.get("obs") == 0: return False     # add_observation raises before the handler
    return r["code"] in methods_of(k)
def finish_script(reqs, script):
    """append what a patient, well-behaved environment does: let every handler finish, pass the empty-ACK delay, acknowledge everything"""
    done = {e[1] for e in script if e[0] == "done"}
    for r in reqs:
        if r["slow"] and r["id"] not in done and any(e == ["req", r["id"]] for e in script): script.append(["done", r["id"]])
    script.append(["tick", 100000])
    for rem in sorted({r["remote"] for r in reqs}):
        n = sum(1 + (len(r["outcome"]["actions"]) if r["outcome"]["k"] == "script" else 0) for r in reqs if r["remote"] == rem)
        for _ in range(n + 1): script.append(["ack", rem])
    return script
def budget_ticks(script, limit=1500000):
    total = 0; out = []
    for e in script:
        if e[0] == "tick":
            if total + e[1] > limit: continue
            total += e[1]
        out.append(e)
    return out

def gen_single(rng, raw_bias=0.0, obs_bias=0.0):
    site = None if rng.random() < 0.06 else rng.choice(SITES)
    if obs_bias: site = SITES[2]
    r = rnd_request(rng, 0, site, set(), raw_bias=raw_bias, obs_bias=obs_bias)
    script = [["req", 0]]
    if r["slow"]:
        for _ in range(rng.choice([0, 0, 1, 2])): script.append(["tick", rng.choice(TICKS)])
        if rng.random() < 0.9: script.append(["done", 0])
        if rng.random() < 0.2: script.append(["done", 0])
    for _ in range(rng.choice([0, 1])): script.append(["tick", rng.choice(TICKS)])
    return {"site": site, "mid0": rng.choice([0, 1, 1000, 65535, 65534, rng.randrange(65536)]), "requests": [r], "script": finish_script([r], budget_ticks(script))}

def gen_concurrent(rng, raw_bias=0.15, obs_bias=0.0):
    site = None if rng.random() < 0.03 else rng.choice(SITES)
    if obs_bias: site = SITES[2]
    n = rng.randint(2, 6); used = set(); reqs = []
    nrem = rng.choice([1, 1, 2, 3])
    for i in range(n):
        remote = rng.randrange(nrem); token = None
        if reqs and rng.random() < 0.12:            # token reuse: overrides a request in flight, or follows a finished one
            o = rng.choice(reqs); remote, token = o["remote"], o["token"]
        elif reqs and rng.random() < 0.15:          # same token from another remote
            token = rng.choice(reqs)["token"]
        while token is None:
            token = [rng.randrange(256) for _ in range(rng.choice([0, 1, 1, 2, 4, 8]))]
            if any(q["remote"] == remote and q["token"] == token for q in reqs) and rng.random() < 0.9: token = None
        r = rnd_request(rng, i, site, used, remote=remote, token=token, raw_bias=raw_bias, obs_bias=obs_bias)
        if rng.random() < 0.3: r["slow"] = True
        reqs.append(r)
    script = []; pending = []; started = 0
    while started < n or (pending and rng.random() < 0.8):
        k = rng.random()
        if started < n and (k < 0.45 or not pending):
            script.append(["req", started])
            if reqs[started]["slow"]: pending.append(started)
            started += 1
        elif k < 0.7 and pending:
            i = pending.pop(rng.randrange(len(pending))); script.append(["done", i])
        elif k < 0.85: script.append(["tick", rng.choice(TICKS)])
        elif k < 0.97: script.append(["ack", rng.randrange(nrem)])
        else: script.append(["done", rng.randrange(n)])
    return {"site": site, "mid0": rng.choice([0, 7, 65535, 65533, rng.randrange(65536)]), "requests": reqs, "script": finish_script(reqs, budget_ticks(script))}

def gen_unencodable(rng):
    """a handler returns Message(payload=<str>): the message layer only finds out when serialising; a well-behaved neighbour follows"""
    site = SITES[0]
    bad = {"id": 0, "remote": 0, "token": [1], "mid": rng.randrange(30000), "con": rng.random() < 0.7, "code": rng.choice([1, 2, 5]), "path": [1], "nr": None,
           "slow": rng.random() < 0.7, "mcast": False, "outcome": {"k": "return", "value": {"v": "msg", "code": rng.choice([None, 69]), "payload": [], "cf": None, "nr": None, "badpayload": True}}}
    good = {"id": 1, "remote": 0, "token": [2], "mid": 40000 + rng.randrange(20000), "con": rng.random() < 0.7, "code": 1, "path": [1], "nr": None, "slow": rng.random() < 0.5, "mcast": False,
            "outcome": {"k": "return", "value": {"v": "msg", "code": None, "payload": [111, 107], "cf": None, "nr": None}}}
    script = [["req", 0]]
    if bad["slow"]:
        if rng.random() < 0.6: script.append(["tick", rng.choice([99999, 100000, 150000])])
        script.append(["done", 0])
    script += [["ack", 0], ["req", 1]]
    if good["slow"]: script += [["tick", rng.choice([50000, 100000])], ["done", 1]]
    return {"site": site, "mid0": 1000, "requests": [bad, good], "script": finish_script([bad, good], script)}

def gen_options(rng):
    """requests carrying Block2 / Block1 / Uri-Path-Abbrev options, and responses large enough to be sliced: branches of Site.render_to_pipe (_expand_upa) and
    Resource._render_to_pipe (Block1Spool / Block2Cache) in front of the handler that the model does not have — oracle only: still exactly one response per request"""
    site = SITES[0]; reqs = []; script = []
    n = rng.choice([1, 1, 2, 3])
    for i in range(n):
        big = rng.choice([0, 0, 0, 1100, 1500, 3000])
        o = rng.choice([{"k": "return", "value": {"v": "msg", "code": rng.choice([None, 69, 132]), "payload": [65 + i] * rng.choice([0, 3, 20]), "cf": None, "nr": None, "big": big}},
                        {"k": "raise", "exc": {"e": "other", "cls": "RuntimeError"}}, {"k": "raise", "exc": _CRE("BadRequest", "diag")}, {"k": "return", "value": {"v": "none"}}])
        opts = rng.choice([{"block2": [rng.choice([0, 0, 1, 2, 7]), False, rng.choice([0, 2, 6])]}, {"block1": [rng.choice([0, 0, 1, 3]), rng.random() < 0.5, rng.choice([0, 2, 6])]},
                           {"upa": rng.choice([0, 1, 2, 99, 65000])}, {"upa": 0, "keep_path": True}, {"block2": [0, False, 0], "block1": [0, False, 6]}, {}])
        r = {"id": i, "remote": rng.randrange(2), "token": [40 + i], "mid": 1000 + 17 * i, "con": rng.random() < 0.6, "code": rng.choice([1, 2, 3, 5]), "path": rng.choice([[1], [1], [9], []]),
             "nr": None, "obs": None, "slow": rng.random() < 0.4, "mcast": False, "outcome": o, "opts": opts}
        if "upa" in opts and not opts.get("keep_path"): r["path"] = []
        reqs.append(r); script.append(["req", i])
        if rng.random() < 0.5: script.append(["tick", rng.choice([50000, 100000])])
    return {"site": site, "mid0": 300, "requests": reqs, "script": finish_script(reqs, script)}

def systematic():
    """every handler outcome kind x method x CON/NON x fast/slow-before/slow-after-the-empty-ACK, one request each"""
    site = SITES[0]
    outcomes = []
    for code in (None, 69, 68, 132): outcomes.append({"k": "return", "value": {"v": "msg", "code": code, "payload": [104, 105], "cf": None, "nr": None}})
    outcomes.append({"k": "return", "value": {"v": "msg", "code": None, "payload": [], "cf": 40, "nr": 2}})
    outcomes.append({"k": "return", "value": {"v": "noresponse"}}); outcomes.append({"k": "return", "value": {"v": "none"}})
    for py in OTHER_VALUES: outcomes.append({"k": "return", "value": {"v": "other", "py": py}})
    for c in CRE_CLASSES:
        outcomes.append({"k": "raise", "exc": {"e": "cre", "cls": c, "text": None, "badtext": None}})
        outcomes.append({"k": "raise", "exc": {"e": "cre", "cls": c, "text": "diag " + c, "badtext": None}})
    outcomes.append({"k": "raise", "exc": {"e": "cre", "cls": "BadRequest", "text": None, "badtext": "bytes"}})
    outcomes.append({"k": "raise", "exc": {"e": "cre", "cls": "NotFound", "text": None, "badtext": "int"}})
    for tm in ("raises", {"v": "none"}, {"v": "msg", "code": 143, "payload": [1, 2, 3], "cf": None, "nr": None}, {"v": "other", "py": "str"}, {"v": "noresponse"}):
        outcomes.append({"k": "raise", "exc": {"e": "custom", "tm": tm}})
    for c in OTHER_EXC: outcomes.append({"k": "raise", "exc": {"e": "other", "cls": c}})
    k = 0
    for o in outcomes:
        for code in (1, 2, 3, 4, 5, 6, 7, 9):
            for con in (True, False):
                for mode in ("fast", "slow", "late"):
                    k += 1
                    r = {"id": 0, "remote": 0, "token": [k % 256, 7], "mid": (k * 31) % 65536, "con": con, "code": code, "path": [1], "nr": None,
                         "slow": mode != "fast", "mcast": False, "outcome": o}
                    script = [["req", 0]] + ([["tick", 100000]] if mode == "late" else []) + ([["done", 0]] if mode != "fast" else [])
                    yield {"site": site, "mid0": 500, "requests": [r], "script": finish_script([r], script)}
    # every outcome kind on every kind of observable resource, with Observe=0
    for o in outcomes:
        for path in OBS_PATHS:
            for con in (True, False):
                for mode in ("fast", "late"):
                    k += 1
                    r = {"id": 0, "remote": 0, "token": [k % 256, 9], "mid": (k * 31) % 65536, "con": con, "code": 1, "path": path, "nr": None, "obs": 0,
                         "slow": mode != "fast", "mcast": False, "outcome": o}
                    script = [["req", 0]] + ([["tick", 100000], ["done", 0]] if mode == "late" else [])
                    yield {"site": SITES[2], "mid0": 500, "requests": [r], "script": finish_script([r], script)}


# ----------------------------------------------------------------------------------------------- running the real stack
class Env:
    pass

def _snake(name): return re.sub(r'(?<!^)(?=[A-Z])', '_', name).upper()

class C09(fw.Property):
    id = "C09"
    coq_props = "Props/C09.v"
    gen_jobs = ["c03_constants", "c14_message_id"]     # round 7: constants + message-ID successor tie (Proofs/C09Tie.v)
    model_imports = ["Verif.Model.C09", "Verif.Model.C09Stack"]
    quick_budget = 200
    thorough_budget = 8000
    design_ref = "DESIGN.md section 14"
    technique = ("Coq proofs over an executable model of the rendering decision, the two Pipes of a request (callbacks defunctionalised) and the "
                 "token/message-manager response path; differential correspondence of that model with the real Context/TokenManager/MessageManager "
                 "stack on a fake transport in virtual time; wire-level property oracle")
    level_text = ("Theorems (closed under the global context): the decision table of final responses (default codes, renderable errors, bare 5.00, 4.04/4.05), "
                  "the once-only final event of the request's pipes for every behaviour of the rendering coroutine and every stop(), and for the stack model: "
                  "per request at most one final response in every run, exactly one for every request whose handler gets to finish, content depending on that request only.")
    level_note = ("Hand-written model tied to the code by the correspondence run; only EMPTY_ACK_DELAY and the message-ID successor are tied to translated source (Proofs/C09Tie.v). One open finding (known_findings.d/C09.json): a returned Message that cannot be serialised (str payload) can block "
                  "the remote's backlog / leave the request un-ACKed (excluded from the model by the type of m_payload, exercised by the oracle-only stream 'unencodable'); "
                  "the former finding (error renderer returning a non-Message never answered) is fixed in /repo (abf5426) and modelled as fixed. Not modelled: deduplication, retransmission, block-wise, observe, handlers raising BaseException "
                  "(CancelledError), the Block1/Block2/Uri-Path-Abbrev branches in front of the handler (oracle-only stream 'options'). 'Exactly one on the wire' at run level = "
                  "'exactly one handed to the message layer' + 'on the wire at once for NON / piggy-backable responses' + 'at most one datagram, with the token, in every run'; "
                  "liveness of backlogged CON responses depends on client ACKs (C14).")
    rule = ("streams: single = one request (site/no site, known/unknown path, 7 methods + unknown codes, resources with partial method sets, CON/NON, No-Response values, "
            "multicast flag, Observe option, fast/slow handler, every outcome kind) ; observable (20 %) = requests with Observe=0 / other / none to resource.ObservableResource subclasses and "
            "Resources mixed with interfaces.ObservableResource whose add_observation accepts, declines, accepts-then-deregisters or raises, alone and among neighbours ; concurrent = 2-6 requests from 1-3 remotes with random interleaving of arrival, handler completion, "
            "time steps around EMPTY_ACK_DELAY and client ACKs, token reuse and override ; pipe = resources implementing render_to_pipe that perform random sequences "
            "of add_response (final / non-final / non-message values), raise and return ; options (4 %, oracle only) = requests with Block2 / Block1 / Uri-Path-Abbrev options and responses of 1100-3000 bytes (branches in front of the handler that the model does not have: exactly one response each, code from the expected set) ; 6 % of returned messages carry a non-response code (5.00 since a9de195) ; unencodable (4 %, oracle only, no model term) = a handler returning a Message whose payload is a str, followed by a well-behaved neighbour ; thorough adds the full product outcome x method x CON/NON x timing. "
            "Each case runs through the real stack and through Model/C09Stack.run_script; compared: every datagram (type, mid, code, token, payload, options), "
            "log records of interest, exceptions raised into tasks, table sizes at the end. Non-trivial = at least one request answered with a response whose code "
            "was not supplied literally by the handler or two requests in flight at once; distinct by full input.")
    trusted_base = ["hand-written Model/C09.v + Model/C09Stack.v (validated by the correspondence streams on every run)",
                    "harness: virtual-time loop, fake transport, scripted random (mid counter), handlers built from the case description"]
    assumptions = ["request message ids are fresh per remote (deduplication is C04)", "virtual time stays below ACK_TIMEOUT after a CON response (retransmission is C03)",
                   "handler return values that are not Messages are builtin objects (str, int, bytes, tuple, dict, float, None)",
                   "resources with their own render_to_pipe and to_message() renderers hand over Messages with response codes (Resource.render checks this for render_* handlers since a9de195; "
                   "the message layer would send anything else as a message of our own: C09_send_message_non_response)",
                   "response Messages serialise: payload is bytes (model type `bytes`); a str payload is the open finding C09:unencodable-response, exercised by the oracle-only stream"]

    # ------------------------------------------------------------------ cases
    def gen_cases(self, tier, rng, n):
        for k in range(n):
            m = k % 10
            if k % 25 == 24: yield "unencodable", gen_unencodable(rng); continue
            if k % 25 == 14: yield "options", gen_options(rng); continue
            if k % 5 == 3: yield "observable", (gen_single(rng, obs_bias=0.9) if k % 10 == 3 else gen_concurrent(rng, raw_bias=0.05, obs_bias=0.7)); continue
            if m < 4: yield "single", gen_single(rng)
            elif m < 8: yield "concurrent", gen_concurrent(rng)
            elif m < 9: yield "pipe", gen_single(rng, raw_bias=1.0)
            else: yield "pipe", gen_concurrent(rng, raw_bias=0.8)
        if tier == "thorough":
            for c in systematic(): yield "single", c

    # ------------------------------------------------------------------ implementation
    def impl(self, stream, inp):
        import aiocoap
        from aiocoap import Message, resource, error, message as message_mod, blockwise
        from aiocoap.numbers.codes import Code
        from aiocoap.numbers.types import Type
        import simnet
        from simloop import VLoop

        class RecLoop(VLoop):
            def __init__(s): super().__init__(); s.tasks = []
            def create_task(s, coro, **kw):
                t = super().create_task(coro, **kw); s.tasks.append(t); return t
        loop = RecLoop(); simnet.patch_random(2.0, inp["mid0"], 0)
        env = Env(); env.reqs = inp["requests"]; env.futures = {}; env.add_raised = 0

        def mkvalue(v):
            k = v["v"]
            if k == "msg":
                m = Message(code=None if v["code"] is None else Code(v["code"]), payload=(SECRET + "-str-payload") if v.get("badpayload") else bytes(v["payload"]) + b"z" * v.get("big", 0))
                if v["cf"] is not None: m.opt.content_format = v["cf"]
                if v["nr"] is not None: m.opt.no_response = v["nr"]
                return m
            if k == "noresponse": return message_mod.NoResponse
            if k == "none": return None
            return {"str": SECRET + "-str", "int": 5, "bytes": (SECRET + "-bytes").encode(), "tuple": (SECRET, 2), "dict": {"code": 69, "payload": SECRET}, "float": 2.05}[v["py"]]
        class Custom(error.RenderableError):
            def __init__(s, tm): s.tm = tm
            def to_message(s):
                if s.tm == "raises": raise RuntimeError(SECRET + "-to_message")
                return mkvalue(s.tm)
            def __repr__(s): return "<Custom %s>" % SECRET
        def mkexc(e):
            k = e["e"]
            if k == "cre":
                cls = getattr(error, e["cls"], None) or getattr(blockwise, e["cls"])
                if e.get("badtext"): return cls((SECRET + "-badtext").encode() if e["badtext"] == "bytes" else 123456)
                return cls() if e["text"] is None else cls(e["text"])
            if k == "custom": return Custom(e["tm"])
            c = e["cls"]
            if c == "ResponseWrappingError": return error.ResponseWrappingError(Message(code=Code(132), payload=(SECRET + "-wrapped").encode()))
            if c in ("LibraryShutdown", "NetworkError", "Error", "UnparsableMessage", "NotObservable"): return getattr(error, c)(SECRET + "-" + c)
            if c == "TimeoutError": return asyncio.TimeoutError(SECRET)
            import builtins
            return getattr(builtins, c)(SECRET + "-" + c)
        def the_request(request):
            return env.reqs[request.payload[0]]
        class PlainRes(resource.Resource):
            def __init__(s, methods):
                super().__init__()
                for m in methods: setattr(s, "render_" + METHOD_NAMES[m], s._handle)
            async def _handle(s, request):
                rq = the_request(request)
                if rq["slow"]: await env.futures[rq["id"]]
                o = rq["outcome"]
                if o["k"] == "return": return mkvalue(o["value"])
                if o["k"] == "raise": raise mkexc(o["exc"])
                raise AssertionError("script outcome on a plain resource")
        class RawRes(resource.Resource):
            async def render_to_pipe(s, pipe):
                rq = the_request(pipe.request)
                if rq["slow"]: await env.futures[rq["id"]]
                o = rq["outcome"]
                if o["k"] != "script": raise AssertionError("raw resource without script")
                for a in o["actions"]:
                    if a[0] == "add":
                        try: pipe.add_response(mkvalue(a[1]), is_last=a[2])
                        except Exception: env.add_raised += 1
                    elif a[0] == "raise": raise mkexc(a[1])
                    else: return
        from aiocoap import interfaces
        async def obs_add_observation(s, request, serverobservation):
            mode = s.mode
            if isinstance(mode, dict): raise mkexc(mode["raise"])
            if mode == "decline": return
            s.observers.add(serverobservation)
            serverobservation.accept(lambda: s.observers.discard(serverobservation))
            if mode == "dereg": serverobservation.deregister()
        class ObsRes(resource.ObservableResource, PlainRes):        # the library's observable base class
            def __init__(s, methods, mode):
                PlainRes.__init__(s, methods); s._observations = set(); s.mode = mode; s.observers = set()
            async def add_observation(s, request, serverobservation):
                if s.mode == "accept": return await resource.ObservableResource.add_observation(s, request, serverobservation)
                return await obs_add_observation(s, request, serverobservation)
        class MixedObsRes(PlainRes, interfaces.ObservableResource):  # a plain Resource mixed with the interface (dispatch in resource.Resource.render_to_pipe)
            def __init__(s, methods, mode):
                PlainRes.__init__(s, methods); s.mode = mode; s.observers = set()
            add_observation = obs_add_observation
        def mkres(k):
            if k == "raw": return RawRes()
            if is_obs(k): return (ObsRes if k.get("flavour") == "resource" else MixedObsRes)(k["obs"], k["mode"])
            return PlainRes(k)
        site = None
        if inp["site"] is not None:
            site = resource.Site()
            for e in inp["site"]:
                site.add_resource(tuple("p%d" % x for x in e["path"]), mkres(e["kind"]))
        ctx, tman, mman, mi = simnet.make_stack(loop, site)
        class MI(simnet.FakeMI):
            def send(s, m):
                rq = getattr(m, "request", None)
                s.sent.append((s.loop.now_us(), m.remote, m.encode(), -1 if rq is None else rq.payload[0]))
        mi = MI(loop); mman.message_interface = mi
        records = []
        class H(logging.Handler):
            def emit(s, rec): records.append(rec)
        h = H(level=logging.WARNING); log = ctx.log; old = (log.level, log.propagate, list(log.handlers))
        log.handlers = [h]; log.propagate = False; log.setLevel(logging.INFO)
        remotes = {}
        def addr(r):
            key = (r["remote"], bool(r.get("mcast")))
            if key not in remotes: remotes[key] = simnet.Addr("R%d" % r["remote"], multicast_locally=key[1])
            return remotes[key]
        outstanding = {}          # remote -> CON mids seen on the wire and not yet acknowledged by the client
        steps = []
        def collect():
            wire = []
            for t, rem, raw, rid in mi.take():
                d = Message.decode(raw, rem)
                extra = sorted(int(o.number) for o in d.opt.option_list() if int(o.number) not in ((6, 12, 23, 27, 28) if stream == "options" else (6, 12)))
                w = {"rq": rid, "to": int(rem.name[1:]), "t": TYPES[int(d.mtype)], "mid": d.mid, "code": int(d.code), "tok": list(d.token), "pl": list(d.payload),
                     "cf": None if d.opt.content_format is None else int(d.opt.content_format), "obs": d.opt.observe, "x": extra}
                if w["t"] == "CON": outstanding.setdefault(w["to"], []).append(w["mid"])
                wire.append(w)
            logs = []
            for rec in records:
                tmpl = rec.msg if isinstance(rec.msg, str) else repr(rec.msg)
                for prefix, kind in LOG_KINDS:
                    if tmpl.startswith(prefix): logs.append(kind); break
                else:
                    if rec.levelno >= logging.ERROR: logs.append("other:" + tmpl[:40])
            del records[:]
            raised = env.add_raised; env.add_raised = 0
            for t in loop.tasks:
                if t.done() and not t.cancelled() and not getattr(t, "_c09_seen", False):
                    t._c09_seen = True
                    if t.exception() is not None: raised += 1
            loop.tasks[:] = [t for t in loop.tasks if not t.done()]
            steps.append({"wire": wire, "log": logs, "raised": raised})
        try:
            with warnings.catch_warnings():
                warnings.simplefilter("ignore")
                for ev in inp["script"]:
                    if ev[0] == "req":
                        r = env.reqs[ev[1]]
                        with loop.enter(): env.futures[r["id"]] = loop.create_future()
                        m = Message(code=Code(r["code"]), mtype=Type.CON if r["con"] else Type.NON, mid=r["mid"], token=bytes(r["token"]),
                                    uri_path=tuple("p%d" % x for x in r["path"]), payload=bytes([r["id"]]))
                        if r["nr"] is not None: m.opt.no_response = r["nr"]
                        if r.get("obs") is not None: m.opt.observe = r["obs"]
                        for k_, v_ in (r.get("opts") or {}).items():
                            if k_ == "block2": m.opt.block2 = tuple(v_)
                            elif k_ == "block1": m.opt.block1 = tuple(v_)
                            elif k_ == "upa": m.opt.uri_path_abbrev = v_
                        simnet.inject(loop, mman, m.encode(), addr(r))
                    elif ev[0] == "done":
                        f = env.futures.get(ev[1])
                        if f is not None and not f.done():
                            with loop.enter(): f.set_result(None)
                        loop.drain()
                    elif ev[0] == "tick": loop.advance(ev[1])
                    elif ev[0] == "ack":
                        mids, outstanding[ev[1]] = outstanding.get(ev[1], []), []
                        for mid in mids:
                            rem = next((a for (n, _), a in remotes.items() if n == ev[1]), None) or simnet.Addr("R%d" % ev[1])
                            simnet.inject(loop, mman, bytes([0x60, 0x00, mid >> 8, mid & 255]), rem)
                    collect()
                end = {"incoming": len(tman.incoming_requests), "piggy": len(mman._piggyback_opportunities), "active": len(mman._active_exchanges), "backlogs": len(mman._backlogs)}
                for t in loop.tasks:
                    if not t.done(): t.cancel()
                for f in env.futures.values():
                    if not f.done(): f.cancel()
                loop.drain()
                for t in loop.tasks:
                    if t.done() and not t.cancelled(): t.exception()
        finally:
            log.setLevel(old[0]); log.propagate = old[1]; log.handlers = old[2]
        return {"steps": steps, "end": end, "loop_exc": len(loop.exceptions)}

    # ------------------------------------------------------------------ model
    def model(self, stream, inp):
        if stream in ("unencodable", "options"): return None          # outside the model (it assumes Messages serialise): oracle only
        evs = []
        for ev in inp["script"]:
            if ev[0] == "req": evs.append("Req %s" % g_request(inp["requests"][ev[1]]))
            elif ev[0] == "done": evs.append("Done %s" % gz(ev[1]))
            elif ev[0] == "tick": evs.append("Tick %s" % gz(ev[1]))
            else: evs.append("AckFrom %s" % gz(ev[1]))
        return "run_script %s %s %s" % (g_site(inp["site"]), gz(inp["mid0"]), glist(evs))
    def decode(self, stream, inp, p):
        p = fw.plain(p)
        os_, summ = p
        def opt(x): return None if x == "None" else x["a"][0]
        steps = []
        for w, l, n in os_:
            steps.append({"wire": [{"rq": x["w_rid"], "to": x["w_remote"], "t": TYPES[x["w_type"]], "mid": x["w_mid"], "code": x["w_code"], "tok": x["w_token"], "pl": x["w_payload"],
                                    "cf": opt(x["w_cf"]), "obs": opt(x["w_obs"]), "x": []} for x in w], "log": list(l), "raised": n})
        return {"steps": steps, "end": {"incoming": summ[0], "piggy": summ[1], "active": summ[2], "backlogs": summ[3]}, "loop_exc": 0}

    # ------------------------------------------------------------------ oracle: the property on what the implementation put on the wire
    def expected(self, inp, r):
        """(kind, code, payload, cf, response's own no_response) of the one final response the property text demands; code None = either"""
        from aiocoap.numbers.codes import Code
        site = inp["site"]
        if site is None: return ("no-site", 132, None, None, None)
        res = next((e for e in site if e["path"] == r["path"]), None)
        if res is None: return ("not-found", 132, [], None, None)
        if res["kind"] == "raw": return ("raw", None, None, None, None)
        o = r["outcome"]
        def of_exc(e):
            if e["e"] == "cre":
                if e.get("badtext") and e["cls"] != "NoRequestInterface": return ("broken-renderer", 160, [], None, None)
                special = {"UnallowedMethod": (133, "Error: Method not allowed!"), "UnsupportedMethod": (133, "Error: Method not recognized!"),
                           "NoRequestInterface": (165, None), "IncompleteException": (136, ""), "ConstructionRenderableError": (160, "")}
                code, text = special.get(e["cls"], (None, ""))
                if code is None: code = int(getattr(Code, _snake(e["cls"])))
                if e["text"] is not None and e["cls"] != "NoRequestInterface": text = e["text"]
                return ("renderable", code, None if text is None else list(text.encode("utf8")), None, None)
            if e["e"] == "custom":
                tm = e["tm"]
                if tm == "raises" or tm["v"] != "msg": return ("broken-renderer" if tm == "raises" or tm["v"] == "none" else "renderer-non-message", 160, [], None, None)
                return ("renderable", tm["code"], tm["payload"], tm["cf"], tm["nr"])
            return ("exception", 160, [], None, None)
        k = res["kind"]
        if is_obs(k) and r.get("obs") == 0 and isinstance(k["mode"], dict): return of_exc(k["mode"]["raise"])     # add_observation itself fails
        if r["code"] not in methods_of(k): return ("no-method", 133, list(b"Error: Method not allowed!"), None, None)
        if o["k"] == "raise": return of_exc(o["exc"])
        v = o["value"]
        if v["v"] == "noresponse": return ("return-noresponse", None, [], None, 26)
        if v["v"] != "msg": return ("return-non-message", 160, [], None, None)
        if v.get("badpayload"): return ("return-unencodable", 160, [], "any", None)
        if v["code"] is not None and not (64 <= v["code"] < 192): return ("return-non-response-code", 160, [], "any", None)
        code = v["code"]
        kind = "return-code"
        if code is None:
            kind = "return-default-code"
            code = 69 if r["code"] in (1, 5) else 66 if r["code"] == 4 else 68
        return (kind, code, v["payload"], v["cf"], v["nr"] if v["nr"] is not None else r["nr"])

    def obs_mode(self, inp, r):
        """mode of the observable resource a request with Observe=0 is addressed to, else None"""
        if inp["site"] is None or r.get("obs") != 0: return None
        res = next((e for e in inp["site"] if e["path"] == r["path"]), None)
        return res["kind"]["mode"] if res is not None and is_obs(res["kind"]) else None

    def expected_seq(self, inp, r):
        """-> (kind, [(code|None, payload|None, cf|"any", effective no_response|None)], completes): the responses the property text demands for
        request r, in order, the last one final iff `completes` (a handler that never finalises is the handler's fault, not a violation).
        The No-Response option in force is the response's own, else the request's (RFC 7967; for every response, whoever built it)."""
        kind, code, payload, cf, own_nr = self.expected(inp, r)
        def eff(nr): return nr if nr is not None else r["nr"]
        if kind == "renderer-non-message": return kind, [(160, [], "any", eff(None))], True
        if kind in ("return-code", "return-default-code", "return-noresponse") and self.obs_mode(inp, r) == "accept" and (code is None or 64 <= code < 96):
            # the observation is established: the first response is not final, carries Observe, and the request stays registered (C08 from here on)
            return "observe-established:" + kind, [(code, payload, cf, eff(own_nr))], False
        if kind != "raw":
            return kind, [(code, payload, cf if kind.startswith("return") and kind != "return-unencodable" else "any", eff(own_nr))], True
        seq = []
        for a in r["outcome"]["actions"]:
            if a[0] == "add":
                v = a[1]
                if v["v"] == "msg": seq.append((v["code"], v["payload"], v["cf"], eff(v["nr"])))
                elif v["v"] != "none": continue            # add_response raises back into the handler; nothing sent
                if a[2]: return kind, seq, True
            elif a[0] == "raise":
                e = a[1]
                if e["e"] == "custom" and e["tm"] != "raises" and e["tm"]["v"] == "msg":
                    seq.append((e["tm"]["code"], e["tm"]["payload"], e["tm"]["cf"], eff(e["tm"]["nr"]))); return kind, seq, True
                if e["e"] == "custom" and e["tm"] != "raises" and e["tm"]["v"] in ("other", "noresponse"): return "renderer-non-message", seq + [(160, [], "any", eff(None))], True
                if e["e"] == "cre" and not (e.get("badtext") and e["cls"] != "NoRequestInterface"):
                    c = self.expected(inp, dict(r, path=[1], code=1, outcome={"k": "raise", "exc": e}))   # code of the class, via the plain-resource table
                    seq.append((c[1], None, "any", eff(None)))
                else: seq.append((160, [], None, eff(None)))
                return kind, seq, True
            else: break
        return kind, seq, False

    def oracle(self, stream, inp, res):
        v = self.oracle_(stream, inp, res)
        if v is not None and stream == "unencodable":
            return ("C09:unencodable-response", "handler returned a Message whose payload is a str (cannot be serialised): " + v[1])
        return v
    def oracle_options(self, inp, res):
        """requests with Block / Uri-Path-Abbrev options or large responses: exactly one response per request, with its token, a response code from the expected set, no text leaked"""
        reqs = inp["requests"]; got = {r["id"]: [] for r in reqs}
        for st in res["steps"]:
            for w in st["wire"]:
                if SECRET.encode() in bytes(w["pl"]): return ("C09:options:leak", "exception text on the wire")
                if w["code"] == 0: continue
                if w["rq"] not in got: return ("C09:options:stray-response", "response that answers no request: %r" % (w,))
                got[w["rq"]].append(w)
        for r in reqs:
            ws = got[r["id"]]
            if len(ws) != 1: return ("C09:options:count:%d" % len(ws), "request %d (%r) got %d responses, exactly one expected" % (r["id"], r.get("opts"), len(ws)))
            w = ws[0]
            if w["tok"] != r["token"] or w["to"] != r["remote"]: return ("C09:options:wrong-token", "request %d answered with token %r" % (r["id"], w["tok"]))
            if not (64 <= w["code"] < 192): return ("C09:options:not-a-response", "request %d answered with code %d" % (r["id"], w["code"]))
            failing = r["outcome"]["k"] == "raise" and r["outcome"]["exc"]["e"] == "other" or r["outcome"]["k"] == "return" and r["outcome"]["value"]["v"] != "msg"
            allowed = {95, 128, 130, 132, 133, 136, 141, 160} if failing else {65, 66, 68, 69, 95, 128, 130, 132, 133, 136, 141}
            o_ = r.get("opts") or {}
            if "upa" in o_ and (o_["upa"] in (99, 65000) or o_.get("keep_path") and r["path"]):      # unknown abbreviation / conflict with Uri-Path: 4.02 before any dispatch
                allowed = {130}
            if w["code"] not in allowed: return ("C09:options:wrong-code:%d" % w["code"], "request %d (%r): code %d" % (r["id"], r.get("opts"), w["code"]))
            if len(w["pl"]) > 1124: return ("C09:options:oversized", "request %d: %d payload bytes in one datagram" % (r["id"], len(w["pl"])))
        if res["loop_exc"]: return ("C09:options:loop-exception", "%d exceptions reached the event loop" % res["loop_exc"])
        if res["end"]["incoming"]: return ("C09:options:request-leaked", "%d requests still registered" % res["end"]["incoming"])
        return None
    def oracle_(self, stream, inp, res):
        if "harness_exception" in res: return ("C09:crash:" + res["where"], "implementation raised %s: %s" % (res["harness_exception"], res.get("text")))
        if stream == "options": return self.oracle_options(inp, res)
        reqs = inp["requests"]; site = inp["site"]
        got = {r["id"]: [] for r in reqs}; acks = {r["id"]: 0 for r in reqs}; by_mid = {}
        started = set(); finished = set(); registered = {}; overridden = set(); overrider = set()
        exp = {r["id"]: self.expected_seq(inp, r) for r in reqs}
        for ev, st in zip(inp["script"], res["steps"]):
            fin = None
            if ev[0] == "req":
                r = reqs[ev[1]]; k = (r["remote"], tuple(r["token"]))
                if k in registered: overridden.add(registered[k]); overrider.add(r["id"])
                registered[k] = r["id"]; started.add(r["id"]); by_mid[(r["remote"], r["mid"])] = r["id"]
                if not eff_slow(site, r): fin = r["id"]
            elif ev[0] == "done" and ev[1] in started and ev[1] not in finished and ev[1] not in overridden: fin = ev[1]
            if fin is not None:
                finished.add(fin); r = reqs[fin]; k = (r["remote"], tuple(r["token"]))
                if exp[fin][2] and registered.get(k) == fin: del registered[k]
            for w in st["wire"]:
                if SECRET.encode() in bytes(w["pl"]): return ("C09:leak", "exception / value text on the wire: %r" % bytes(w["pl"]))
                if w["x"]: return ("C09:unexpected-option", "response carries options %r (No-Response must not go on the wire)" % (w["x"],))
                if w["t"] == "ACK" and (w["to"], w["mid"]) in by_mid: acks[by_mid[(w["to"], w["mid"])]] += 1
                if w["code"] == 0: continue
                if w["rq"] not in got: return ("C09:stray-response", "response that answers no request: %r" % (w,))
                r = reqs[w["rq"]]
                if w["tok"] != r["token"] or w["to"] != r["remote"]:
                    return ("C09:wrong-token", "response for request %d carries token %r to remote %d; the request had %r from %d" % (r["id"], w["tok"], w["to"], r["token"], r["remote"]))
                got[r["id"]].append(w)
        def hidden(x):
            code, nr = x[0], x[3]
            return code is not None and nr is not None and bool(nr & (1 << (code >> 5) - 1))
        def check_request(r):
            i = r["id"]
            kind, seq, completes = exp[i]; ws = got[i]
            key_shared = sum(1 for q in reqs if q["id"] in started and q["remote"] == r["remote"] and q["token"] == r["token"]) > 1
            established = kind.startswith("observe-established")
            if kind.endswith("return-noresponse"): seq = []
            visible = [x for x in seq if not hidden(x)]
            for w in ws:
                if (w["obs"] is not None) != established: return ("C09:observe-option:" + kind, "request %d: response carries Observe=%r" % (i, w["obs"]))
            if i in overridden or i not in finished:
                if len(ws) > len(visible): return ("C09:count:%s:%d>%d" % (kind, len(ws), len(visible)), "request %d got %d responses although it never finished" % (i, len(ws)))
                return None
            if len(ws) != len(visible):
                return ("C09:count:%s:%d/%d" % (kind, len(ws), len(visible)),
                        "request %d (%s) got %d responses, %d expected (exactly one final, nothing after it)" % (i, kind, len(ws), len(visible)))
            if len(ws) == len(visible):
                for w, (code, payload, cf, nr) in zip(ws, visible):
                    if code is not None and w["code"] != code: return ("C09:wrong-code:" + kind, "request %d (%s): code %d, expected %d" % (i, kind, w["code"], code))
                    if payload is not None and w["pl"] != payload: return ("C09:wrong-payload:" + kind, "request %d (%s): payload %r, expected %r" % (i, kind, bytes(w["pl"]), bytes(payload)))
                    if cf != "any" and w["cf"] != cf: return ("C09:wrong-options:" + kind, "request %d: content-format %r, expected %r" % (i, w["cf"], cf))
            for w in ws:
                if w["code"] < 64 or w["code"] >= 192: return ("C09:not-a-response", "request %d answered with code %d" % (i, w["code"]))
                if w["t"] == "RST": return ("C09:rst", "request %d answered by RST" % i)
                if key_shared: continue      # token used by another request of the scenario: an earlier request's pending ACK may carry the answer (observation in notes)
                if w["t"] == "ACK" and w["mid"] != r["mid"]: return ("C09:wrong-mid", "request %d: piggy-backed response with mid %d, request had %d" % (i, w["mid"], r["mid"]))
                if w["t"] == "ACK" and not r["con"]: return ("C09:ack-to-non", "request %d was NON but got an ACK" % i)
                if w["t"] == "CON" and not r["con"]: return ("C09:con-to-non", "request %d was NON but got a CON response" % i)
            if sum(1 for w in ws if w["t"] == "ACK") > 1: return ("C09:two-piggybacked", "request %d got two piggy-backed responses" % i)
            if r["con"] and not key_shared and acks[i] != 1:
                return ("C09:con-ack-count:%d" % acks[i], "CON request %d was acknowledged %d times" % (i, acks[i]))
            return None
        for r in reqs:
            if r["id"] not in started: continue
            v = check_request(r)
            if v is not None:
                if self.obs_mode(inp, r) == "decline" and exp[r["id"]][0] in ("renderable", "no-method") and "code 160" in v[1]:
                    return ("C09:declined-observation:error-replaced-by-500", "Observe=0 to an observable resource that declines the observation: the handler's renderable error is replaced "
                            "by the AttributeError of `finally: servobs._cancellation_callback()` — " + v[1])
                if exp[r["id"]][0] == "return-non-response-code":
                    return ("C09:non-response-code-sent", "handler returned a Message with code %d (not a response code): a bare 5.00 is expected, but: %s"
                            % (r["outcome"]["value"]["code"], v[1]))
                if exp[r["id"]][0] == "renderer-non-message":
                    return ("C09:no-response:to_message-returned-non-message", "request %d: to_message() returned a non-Message; one bare 5.00 expected, but: %s" % (r["id"], v[1]))
                return v
        if res["loop_exc"]: return ("C09:loop-exception", "%d exceptions reached the event loop" % res["loop_exc"])
        for st in res["steps"]:
            for l in st["log"]:
                if l.startswith("other:"): return ("C09:unexpected-error-log", l)
        if res["end"]["incoming"] != len(registered):
            return ("C09:request-leaked", "%d requests registered at the end, %d explained by handlers that did not (get to) produce a final response" % (res["end"]["incoming"], len(registered)))
        return None

    def nontrivial(self, stream, inp, res):
        if "steps" not in res: return None
        kinds = {self.expected(inp, r)[0] for r in inp["requests"]}
        inflight = 0; mx = 0; done = set(); started = set()
        for ev in inp["script"]:
            if ev[0] == "req" and eff_slow(inp["site"], inp["requests"][ev[1]]): inflight += 1; started.add(ev[1])
            if ev[0] == "done" and ev[1] not in done and ev[1] in started: done.add(ev[1]); inflight -= 1
            mx = max(mx, inflight)
        ok = mx >= 2 or bool(kinds - {"return-code"})
        return fw.jdump([stream, inp]) if ok and any(st["wire"] for st in res["steps"]) else None

PROPERTY = C09()
