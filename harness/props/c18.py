"""C18 — shutdown at any moment fails pending work and leaves nothing running.

Streams
  script  : event scripts (peer datagrams, timers, client requests, handler actions, transport errors, SHUTDOWN at every
            position, then every remaining timer and late events) against the real Context/TokenManager/MessageManager on
            the virtual loop, compared step by step with Model/C18.v (vm_compute); a bystander context lives on the same loop.
  twoctx  : (oracle only) two real contexts (client with BlockwiseRequest/observations, server with a real resource.Site)
            connected through a lossy simulated wire; one of them is shut down at a scripted instant.
"""
import os, sys, asyncio, functools, logging
from fractions import Fraction
import fw
from fw import gz, gbool, glist, gopt

HERE = os.path.dirname(os.path.abspath(__file__))
sys.path.insert(0, os.path.dirname(HERE))

CON, NON, ACK, RST = 0, 1, 2, 3
TNAMES = ["CON", "NON", "ACK", "RST"]
GET = 1
CONTENT = 69          # 2.05
NOT_FOUND = 132       # 4.04
INTERNAL = 160        # 5.00


def tok_bytes(n): return b"" if n == 0 else n.to_bytes((n.bit_length() + 7) // 8, "big")
def tok_int(b): return int.from_bytes(b, "big")


class _VTime:
    """stand-in for the `time` module inside aiocoap.protocol: exact virtual seconds"""
    def __init__(self, loop): self.loop = loop
    def time(self): return Fraction(self.loop.now_us(), 10**6)


class _LogProbe(logging.Handler):
    """formats every record aiocoap logs, so that a broken logging call is noticed"""
    def __init__(self, sink): super().__init__(level=logging.DEBUG); self.sink = sink
    def emit(self, record):
        try: record.getMessage()
        except Exception as e: self.sink.append("logformat:" + type(e).__name__)
    def handleError(self, record): self.sink.append("loghandler")


def errname(e):
    if isinstance(e, type): return e.__name__
    return type(e).__name__

def is_library_error(name):
    from aiocoap import error
    c = getattr(error, name, None)
    return isinstance(c, type) and issubclass(c, error.Error)


class Stack:
    """one real aiocoap context on the virtual loop, with scripted application code on both sides"""
    def __init__(self, loop, name, ifaces=1, mi_mode="prompt"):
        import simnet
        from aiocoap import interfaces
        self.loop = loop; self.name = name
        self.log = []            # outputs of the current step, in order of occurrence
        self.handlers = {}       # h -> state dict
        self.next_h = 0
        self.requests = {}       # q -> aiocoap Request
        self.resolving = []      # futures of pending (slow) determine_remote calls
        self.resolving_q = {}    # ... by request label
        stack = self
        class Site(interfaces.Resource):
            async def needs_blockwise_assembly(self, request): return False
            async def render(self, request): raise NotImplementedError
            async def render_to_pipe(self, pipe): await stack._handler(pipe)
        def route(rname): return 1 if (ifaces > 1 and rname.startswith("s")) else 0     # remotes s* live behind the second interface
        self.route = route
        class MI(simnet.FakeMI):
            shutdown_mode = mi_mode; idx = 0
            async def recognize_remote(self, r):
                return isinstance(r, simnet.Addr) and not getattr(r, "unresolved", False) and route(r.name) == self.idx
            async def determine_remote(self, m):
                r = getattr(m, "remote", None)
                if isinstance(r, simnet.Addr) and getattr(r, "unresolved", False) and route(r.name) == self.idx:
                    f = loop.create_future(); stack.resolving.append(f); stack.resolving_q[getattr(r, "q", None)] = f
                    await f                                                # name resolution in progress
                    a = simnet.Addr(r.name); return a
                return None
            async def shutdown(self):
                if self.shutdown_mode == "hang":
                    f = loop.create_future(); stack.resolving.append(f)     # kept referenced: the closing never finishes
                    await f
                if self.shutdown_mode == "deferred":
                    # the udp6 pattern: close the transport, wait for its connection_lost callback one loop turn later
                    self._closing = loop.create_future(); loop.call_soon(self._closing.set_result, None)
                    await self._closing
                self.down = True
        self.ctx, self.tman, self.mman, _ = simnet.make_stack(loop, Site())
        self.mi = MI(loop); self.mman.message_interface = self.mi
        self.ifaces = [(self.tman, self.mman, self.mi)]
        for i in range(1, ifaces):
            from aiocoap.tokenmanager import TokenManager
            from aiocoap.messagemanager import MessageManager
            with loop.enter():
                tman = TokenManager(self.ctx); mman = MessageManager(tman); mi = MI(loop); mi.idx = i
                mman.message_interface = mi; tman.token_interface = mman; self.ctx.request_interfaces.append(tman)
            self.ifaces.append((tman, mman, mi))
        self.shutdown_tasks = []; self.shutdown_returned_at = None

    # ---- server side application: one scripted coroutine per incoming request
    async def _handler(self, pipe):
        h = self.next_h; self.next_h += 1
        st = self.handlers[h] = {"fut": None, "done": False, "cancelled": False}
        self.log.append(["hstart", h, pipe.request.remote.name, tok_int(pipe.request.token)])
        try:
            while True:
                st["fut"] = self.loop.create_future()
                try:
                    cmd = await st["fut"]
                except asyncio.CancelledError:
                    # a stubborn handler: notes the cancellation and keeps going, so that late completions can be injected
                    st["cancelled"] = True; self.log.append(["hcancel", h]); continue
                if cmd[0] == "respond":
                    from aiocoap import Message
                    m = Message(code=cmd[1])
                    if cmd[3] is not None: m.opt.observe = cmd[3]
                    pipe.add_response(m, is_last=cmd[2])
                    if cmd[2] and not cmd[4]: return                 # cmd[4]: keeps awaiting after its last response
                elif cmd[0] == "raise":
                    from aiocoap import error
                    raise (error.NotFound() if cmd[1] == "NotFound" else RuntimeError("handler failed"))
                elif cmd[0] == "shutdown":
                    # eg. an admin resource: the handler itself awaits the shutdown of its own context
                    try:
                        await self.ctx.shutdown(); self.log.append(["hshutdown_returned", h])
                    except asyncio.CancelledError:
                        st["cancelled"] = True; self.log.append(["hcancel", h])
                    except Exception as e:
                        self.log.append(["exc", type(e).__name__])
                elif cmd[0] == "exit": return
        finally:
            st["done"] = True

    def handler_cmd(self, h, cmd):
        st = self.handlers.get(h)
        if st is None or st["done"] or st["fut"] is None or st["fut"].done(): return False
        st["fut"].set_result(cmd); self.loop.drain(); return True

    # ---- client side application
    def request(self, q, rname, mtype, observe, unresolved=False):
        import simnet
        from aiocoap import Message
        m = Message(code=GET, _mtype=mtype)
        if observe: m.opt.observe = 0
        m.remote = simnet.Addr(rname)
        if unresolved: m.remote.unresolved = True; m.remote.q = q
        with self.loop.enter():
            r = self.ctx.request(m, handle_blockwise=False)
            self.requests[q] = r
            def done(f, q=q):
                if f.cancelled(): self.log.append(["cancelled", q]); return
                e = f.exception()
                if e is not None: self.log.append(["fail", q, errname(e)])
                else:
                    resp = f.result(); self.log.append(["resp", q, int(resp.code), resp.opt.observe])
            r.response.add_done_callback(done)
            if r.observation is not None:
                r.observation.register_callback(lambda resp, q=q: self.log.append(["notif", q, int(resp.code), resp.opt.observe]), _suppress_deprecation=True)
                r.observation.register_errback(lambda e, q=q: self.log.append(["obsend", q, errname(e)]), _suppress_deprecation=True)
        self.loop.drain()

    def resolve(self, q):
        f = self.resolving_q.get(q)
        if f is not None and not f.done():
            with self.loop.enter(): f.set_result(None)
        self.loop.drain()

    def cancel(self, q):
        r = self.requests.get(q)
        if r is None or r.response.done(): return
        with self.loop.enter(): r.response.cancel()
        self.loop.drain()

    # ---- network side
    def recv(self, rname, mtype, code, mid, tok, obs):
        import simnet
        from aiocoap import Message
        m = Message(_mtype=mtype, _mid=mid, code=code, _token=tok_bytes(tok))
        if obs is not None: m.opt.observe = obs
        raw = m.encode()
        try:
            simnet.inject(self.loop, self.ifaces[self.route(rname)][1], raw, simnet.Addr(rname))
        except Exception as e:
            self.log.append(["exc", type(e).__name__]); self.loop.drain()

    def transport_error(self, rname):
        import simnet
        try:
            with self.loop.enter(): self.mman.dispatch_error(OSError(111, "connection refused"), simnet.Addr(rname))
        except Exception as e:
            self.log.append(["exc", type(e).__name__])
        self.loop.drain()

    def shutdown(self):
        with self.loop.enter():
            self.shutdown_tasks.append(asyncio.ensure_future(self.ctx.shutdown(), loop=self.loop))
        self.loop.drain()

    def turns(self, n):
        """run n callbacks of the ready queue (finer than an event: everything an event triggers is normally drained)"""
        for _ in range(n):
            if not self.loop._ready: break
            h = self.loop._ready.pop(0)
            with self.loop.enter():
                if not h._cancelled: h._run()
    def shutdown_interleaved(self, kind, n, q=None):
        """shutdown_cancel: the task awaiting Context.shutdown() is cancelled after n callbacks;
        shutdown_then_cancel / cancel_then_shutdown: the application cancels request q's response n callbacks after / before it
        asks for the shutdown, without letting the loop settle in between"""
        r = self.requests.get(q)
        def start():
            with self.loop.enter(): self.shutdown_tasks.append(asyncio.ensure_future(self.ctx.shutdown(), loop=self.loop))
        def cancel_q():
            if r is not None and not r.response.done():
                with self.loop.enter(): r.response.cancel()
        if kind == "shutdown_cancel":
            start(); self.turns(n)
            with self.loop.enter(): self.shutdown_tasks[-1].cancel()
        elif kind == "shutdown_then_cancel": start(); self.turns(n); cancel_q()
        else: cancel_q(); self.turns(n); start()
        self.loop.drain()
    def state(self):
        return [{"transport_closed": bool(mi.down), "tm_tables_cleared": tman.outgoing_requests is None and tman.incoming_requests is None,
                 "mm_cleared": mman._active_exchanges is None} for (tman, mman, mi) in self.ifaces]

    # ---- observation of one step
    def owns(self, handle):
        cb = handle._callback; objs = list(handle._args or ())
        objs += list(getattr(cb, "__defaults__", None) or ())
        if isinstance(cb, functools.partial):
            objs += list(cb.args); s = getattr(cb.func, "__self__", None)
            if s is not None: objs.append(s)
        mine = [self.ctx] + [x for (t, m, i) in self.ifaces for x in (t, m, m._recent_messages)]
        return any(o is x for o in objs for x in mine)

    def take(self):
        """outputs since the last call: wire order kept, then application-side outputs"""
        from aiocoap import Message
        out = []
        for (_, _, mi) in self.ifaces:
            for (t, remote, raw) in mi.take():
                m = Message.decode(raw, remote)
                out.append(["send", remote.name, int(m.mtype), int(m.code), m.mid, tok_int(m.token), m.opt.observe])
        app = self.log; self.log = []
        for task in self.shutdown_tasks:
            if task.done() and not getattr(task, "_c18_seen", False):
                task._c18_seen = True
                if task.cancelled(): app.append(["shutdown_task_cancelled"]); continue
                if self.shutdown_returned_at is None: self.shutdown_returned_at = self.loop.now_us()
                e = task.exception()
                app.append(["shutdown_done"] if e is None else ["exc", type(e).__name__])
        return out + app


def describe_loop_exc(ctx):
    e = ctx.get("exception")
    return (type(e).__name__ if e is not None else "none") + ":" + str(ctx.get("message", ""))[:60]


# bystander scenario for the "other contexts are unaffected" clause: (time_us, action)
BYSTANDER = [
    (0, ("req", 900, "pb", CON, False)),                  # CON request, never answered: retransmits 2,6,14,30 s, fails at 62 s
    (0, ("recv", "pb", CON, GET, 777, 9, None)),          # CON request to a handler that stays silent: empty ACK at 0.1 s
    (0, ("req", 901, "pc", CON, True)),                   # observation, established below
    (50_000, ("recv", "pc", ACK, CONTENT, None, None, 5)),
]

class Sim:
    """runs an event script step by step; apply(ev) returns the canonical outputs of the context under test"""
    HORIZON = 400_000_000
    def __init__(self, inp, with_bystander=True):
        import simloop, simnet
        import aiocoap.protocol as proto
        self.inp = inp
        self.loop = simloop.VLoop()
        simnet.patch_random(Fraction(inp.get("uniform", 2_000_000), 10**6), inp.get("mid0", 0), inp.get("tok0", 0))
        self._old_time = proto.time; proto.time = _VTime(self.loop)
        self.logerrs = []
        self.probe = _LogProbe(self.logerrs)
        lg = logging.getLogger("coap"); self._old = (lg.level, lg.propagate)
        lg.setLevel(logging.DEBUG); lg.propagate = False; lg.addHandler(self.probe)
        self.A = Stack(self.loop, "A", ifaces=inp.get("ifaces", 1), mi_mode=inp.get("mi_mode", "prompt"))
        self.B = Stack(self.loop, "B") if with_bystander else None
        self.b_trace = []; self.b_next = 0; self.exc_seen = 0
        if inp.get("hang"): self.A.mi.shutdown_mode = "hang"
        self.shutdown_called_at = None
        self._b_due(); self._b_collect()
        self.n_orphans = self.orphans()
    def close(self):
        import aiocoap.protocol as proto
        proto.time = self._old_time
        lg = logging.getLogger("coap"); lg.removeHandler(self.probe); lg.setLevel(self._old[0]); lg.propagate = self._old[1]
        for s in (self.A, self.B):
            if s is None: continue
            for h in list(s.handlers): s.handler_cmd(h, ("exit",))
        self.loop.exceptions.clear()

    # --- bystander plumbing: B's script is keyed by absolute time; B's outputs are timestamped
    def _b_collect(self):
        if self.B is None: return
        for o in self.B.take(): self.b_trace.append([self.loop.now_us()] + o)
    def _next_b_time(self):
        return BYSTANDER[self.b_next][0] if self.B is not None and self.b_next < len(BYSTANDER) else None
    def _b_due(self):
        while self.B is not None and self.b_next < len(BYSTANDER) and BYSTANDER[self.b_next][0] <= self.loop.now_us():
            act = BYSTANDER[self.b_next][1]; self.b_next += 1
            B = self.B
            if act[0] == "req": B.request(act[1], act[2], act[3], act[4])
            elif act[0] == "recv":
                mid, tok = act[4], act[5]
                if mid is None:       # answer to B's latest CON to that remote: pick mid/token off the wire
                    sent = [x for x in self.b_trace if x[1] == "send" and x[2] == act[1] and x[3] in (CON, NON) and x[4] == GET]
                    mid, tok = sent[-1][5], sent[-1][6]
                B.recv(act[1], act[2], act[3], mid, tok, act[6])
            self._b_collect()

    def _pop_cancelled(self):
        import heapq
        t = self.loop._timers
        while t and t[0][2]._cancelled: heapq.heappop(t)
    def _run_until(self, target=None, stop_at=None):
        """let the shared clock run: fire every timer / bystander action due up to `target` (or until the timer `stop_at`
        = (due, seq) of the context under test has fired)"""
        loop = self.loop
        while True:
            self._pop_cancelled()
            nb = self._next_b_time()
            d0, s0 = (loop._timers[0][0], loop._timers[0][1]) if loop._timers else (None, None)
            limit = target if stop_at is None else stop_at[0]
            if nb is not None and nb <= limit and (d0 is None or nb <= d0):
                loop._now = max(loop._now, nb); self._b_due(); continue
            if d0 is None or d0 > limit: break
            hit = stop_at is not None and (d0, s0) == stop_at
            loop.fire_next(); self._b_collect()
            if hit: return
        if target is not None:
            loop._now = max(loop._now, target); loop.drain(); self._b_collect()

    def orphans(self):
        """pending timers of the context under test (other than deduplication expiries) that neither _active_exchanges nor
        _piggyback_opportunities refer to: nothing could cancel them at shutdown"""
        mman = self.A.mman; n = 0
        held = [v[1] for v in (mman._active_exchanges or {}).values()] + [v[1] for v in mman._piggyback_opportunities.values()]
        for d, s_, h in self.loop._timers:
            if h._cancelled or not self.A.owns(h): continue
            cb = h._callback
            if isinstance(cb, functools.partial) and getattr(cb.func, "__self__", None) is mman._recent_messages: continue
            if not any(h is x for x in held): n += 1
        return n
    def own_timers(self):
        return sorted((d, s) for d, s, h in self.loop._timers if not h._cancelled and self.A.owns(h))

    def apply(self, ev):
        A = self.A; k = ev[0]
        if k == "recv": A.recv(ev[1], ev[2], ev[3], ev[4], ev[5], ev[6])
        elif k == "fire":
            own = self.own_timers()
            if own: self._run_until(stop_at=own[0])
        elif k == "adv": self._run_until(target=self.loop.now_us() + ev[1])
        elif k == "req": A.request(ev[1], ev[2], ev[3], ev[4])
        elif k == "reqslow": A.request(ev[1], ev[2], ev[3], ev[4], unresolved=True)
        elif k == "resolve": A.resolve(ev[1])
        elif k == "cancel": A.cancel(ev[1])
        elif k == "respond": A.handler_cmd(ev[1], ("respond", ev[2], ev[3], ev[4], bool(ev[5]) if len(ev) > 5 else False))
        elif k == "raise": A.handler_cmd(ev[1], ("raise", ev[2]))
        elif k == "err": A.transport_error(ev[1])
        elif k == "shutdown":
            if self.shutdown_called_at is None: self.shutdown_called_at = self.loop.now_us()
            A.shutdown()
        elif k == "hshutdown": A.handler_cmd(ev[1], ("shutdown",))
        elif k in ("shutdown_cancel", "shutdown_then_cancel", "cancel_then_shutdown"): A.shutdown_interleaved(k, ev[1], ev[2] if len(ev) > 2 else None)
        else: raise ValueError("unknown event %r" % (ev,))
        self.loop.drain(); self._b_collect()
        self.n_orphans += self.orphans()
        out = A.take()
        if k in ("shutdown", "hshutdown", "shutdown_cancel", "shutdown_then_cancel", "cancel_then_shutdown"):
            for h, st in sorted(A.handlers.items()):
                if not st["done"] and not st["cancelled"]: out.append(["running_after_shutdown", h])
        for c in self.loop.exceptions[self.exc_seen:]:
            e = c.get("exception"); out.append(["exc", type(e).__name__ if e is not None else "LoopError:" + str(c.get("message"))[:50]])
        self.exc_seen = len(self.loop.exceptions)
        for e in self.logerrs: out.append(["exc", e])
        del self.logerrs[:]
        return canon_step(out)

    def finish(self):
        """let everything run out (horizon well beyond EXCHANGE_LIFETIME after the last event)"""
        self._run_until(target=max(self.loop.now_us() + 300_000_000, self.HORIZON))
        late = self.A.take()
        for c in self.loop.exceptions[self.exc_seen:]:
            e = c.get("exception"); late.append(["exc", type(e).__name__ if e is not None else "LoopError"])
        self.exc_seen = len(self.loop.exceptions)
        return canon_step(late), len(self.own_timers())


def canon_step(out):
    sends = [o for o in out if o[0] == "send"]
    return sends + sorted((o for o in out if o[0] != "send"), key=fw.jdump)

_bystander_ref = {}
def bystander_reference(inp):
    key = (inp.get("uniform", 2_000_000), inp.get("mid0", 0), inp.get("tok0", 0))
    if key not in _bystander_ref:
        s = Sim({"uniform": key[0], "mid0": key[1], "tok0": key[2], "events": []})
        try:
            s.finish(); _bystander_ref[key] = s.b_trace
        finally: s.close()
    return _bystander_ref[key]


# ----------------------------------------------------------------------------- Gallina rendering of an event script
RNAMES = {"p1": 1, "p2": 2, "p3": 3}
RNAME_OF = {v: k for k, v in RNAMES.items()}
RAISE_CODES = {"NotFound": NOT_FOUND, "RuntimeError": INTERNAL}
def g_mtype(t): return TNAMES[t]
def g_msg(r, t, code, mid, tok, obs):
    return "{| m_type := %s; m_code := %s; m_mid := %s; m_token := %s; m_obs := %s; m_remote := %s |}" % (g_mtype(t), gz(code), gz(mid), gz(tok), gopt(obs, gz), gz(RNAMES[r]))
def g_event(ev):
    k = ev[0]
    if k == "recv": return "Recv " + g_msg(ev[1], ev[2], ev[3], ev[4], ev[5], ev[6])
    if k == "fire": return "Fire"
    if k == "adv": return "Advance %s" % gz(ev[1])
    if k == "req": return "ClientRequest %s %s %s %s" % (gz(ev[1]), gz(RNAMES[ev[2]]), g_mtype(ev[3]), gbool(ev[4]))
    if k == "cancel": return "ClientCancel %s" % gz(ev[1])
    if k == "respond": return "HandlerRespond %s %s %s %s %s" % (gz(ev[1]), gz(ev[2]), gbool(ev[3]), gopt(ev[4], gz), gbool(bool(ev[5]) if len(ev) > 5 else False))
    if k == "reqslow": return "ClientRequestSlow %s %s %s %s" % (gz(ev[1]), gz(RNAMES[ev[2]]), g_mtype(ev[3]), gbool(ev[4]))
    if k == "resolve": return "Resolved %s" % gz(ev[1])
    if k == "raise": return "HandlerRaise %s %s" % (gz(ev[1]), gz(RAISE_CODES[ev[2]]))
    if k == "err": return "TransportError %s" % gz(RNAMES[ev[1]])
    if k == "shutdown": return "Shutdown"
    raise ValueError(ev)

def d_opt(x): return None if x == "None" else x["a"][0]
def d_output(o):
    if isinstance(o, str):
        return {"OShutdownDone": ["shutdown_done"]}[o]
    c, a = o["c"], o["a"]
    if c == "OSend":
        m = a[0]; return ["send", RNAME_OF[m["m_remote"]], TNAMES.index(m["m_type"]), m["m_code"], m["m_mid"], m["m_token"], d_opt(m["m_obs"])]
    if c == "OResp": return ["resp", a[0], a[1], d_opt(a[2])]
    if c == "ONotif": return ["notif", a[0], a[1], d_opt(a[2])]
    if c == "OFail": return ["fail", a[0], a[1]]
    if c == "OObsEnd": return ["obsend", a[0], a[1]]
    if c == "OCancelled": return ["cancelled", a[0]]
    if c == "OHStart": return ["hstart", a[0], RNAME_OF[a[1]], a[2]]
    if c == "OHCancel": return ["hcancel", a[0]]
    if c == "OExc": return ["exc", a[0] if isinstance(a[0], str) else fw.jdump(a[0])]
    raise ValueError(o)


# ----------------------------------------------------------------------------- generation by simulation
class Walk:
    """random walk over mostly-meaningful events: runs the real stack while generating, so that the scripted peer can
    acknowledge / answer / reset exactly what is on the wire"""
    def __init__(self, rng, base):
        self.rng = rng; self.base = dict(base); self.events = []
        self.sim = Sim(dict(base, events=[]), with_bystander=False)
        self.unacked = []       # CONs we sent: (r, mid, tok, code)
        self.reqs = {}          # q -> dict(r, tok, observe, seq)
        self.nq = 0; self.ntok = base.get("tok0", 0)
        self.handlers = {}      # h -> (r, tok)
        self.slow = {}          # q -> request still looking for its remote
        self.slow_ever = set()
        self.peer_mid = {"p1": 100, "p2": 200, "p3": 300}
        self.peer_reqs = []     # earlier requests of the peer (for duplicates)
        self.down = False
    def close(self): self.sim.close()
    def do(self, ev):
        out = self.sim.apply(ev); self.events.append(ev)
        for o in out:
            if o[0] == "send" and o[2] == CON: self.unacked.append((o[1], o[4], o[5], o[3]))
            elif o[0] == "hstart": self.handlers[o[1]] = (o[2], o[3])
        return out
    def new_mid(self, r): self.peer_mid[r] += 1; return self.peer_mid[r]
    def ev_request(self):
        rng = self.rng; self.nq += 1; q = self.nq
        r = rng.choice(["p1", "p1", "p2", "p3"]); obs = rng.random() < 0.4
        if rng.random() < 0.15:                                   # the remote still has to be looked up
            self.slow[q] = {"r": r, "observe": obs}; self.slow_ever.add(q)
            return ["reqslow", q, r, rng.choice([CON, CON, NON]), obs]
        if not self.down:
            self.ntok += 1; self.reqs[q] = {"r": r, "tok": self.ntok, "observe": obs, "seq": rng.choice([0, 5, 2**24 - 3])}
        return ["req", q, r, rng.choice([CON, CON, NON]), obs]
    def ev_resolve(self):
        if not self.slow: return None
        q = self.rng.choice(sorted(self.slow)); d = self.slow.pop(q)
        if not self.down:
            self.ntok += 1; self.reqs[q] = {"r": d["r"], "tok": self.ntok, "observe": d["observe"], "seq": self.rng.choice([0, 5, 2**24 - 3])}
        return ["resolve", q]
    def ev_peer_response(self):
        rng = self.rng
        if not self.reqs: return None
        q = rng.choice(sorted(self.reqs)); d = self.reqs[q]
        kind = rng.random()
        obs = None
        if d["observe"] and rng.random() < 0.8:
            step = rng.choice([1, 1, 1, 2, -1, 0, 2**23, 2**23 + 1]); d["seq"] = (d["seq"] + step) % 2**24; obs = d["seq"]
        code = rng.choice([CONTENT, CONTENT, CONTENT, NOT_FOUND])
        mine = [u for u in self.unacked if u[0] == d["r"] and u[2] == d["tok"]]
        if kind < 0.4 and mine:
            u = mine[-1]; self.unacked.remove(u)
            return ["recv", d["r"], ACK, code, u[1], d["tok"], obs]
        return ["recv", d["r"], rng.choice([CON, NON]), code, self.new_mid(d["r"]), d["tok"], obs]
    def ev_ack(self):
        if not self.unacked: return None
        u = self.rng.choice(self.unacked)
        if self.rng.random() < 0.8: self.unacked.remove(u)
        return ["recv", u[0], self.rng.choice([ACK, ACK, ACK, RST]), 0, u[1], 0, None]
    def ev_peer_request(self):
        rng = self.rng; r = rng.choice(["p1", "p1", "p2", "p3"])
        x = rng.random()
        if x < 0.2 and self.peer_reqs:
            return list(rng.choice(self.peer_reqs))                          # duplicate (same mid)
        ev = ["recv", r, rng.choice([CON, CON, NON]), GET, self.new_mid(r), rng.choice([0, 7, 7, 8, 9, 300]), rng.choice([None, None, 0])]
        self.peer_reqs.append(ev); return ev
    def ev_peer_other(self):
        rng = self.rng; r = rng.choice(["p1", "p2"])
        return rng.choice([
            ["recv", r, CON, 0, self.new_mid(r), 0, None],                       # ping
            ["recv", r, CON, CONTENT, self.new_mid(r), 250, None],               # response nobody waits for
            ["recv", r, NON, CONTENT, self.new_mid(r), 251, 3],
            ["recv", r, ACK, CONTENT, rng.randint(0, 5), 252, None],
            ["recv", r, ACK, GET, rng.randint(0, 5), 1, None],                   # codes and types that do not fit
            ["recv", r, RST, CONTENT, rng.randint(0, 5), 1, None],
            ["recv", r, NON, 0, self.new_mid(r), 0, None],
            ["recv", r, CON, 229, self.new_mid(r), 1, None],
            ["recv", r, RST, 0, rng.randint(0, 70000) % 65536, 0, None],
        ])
    def ev_handler(self):
        rng = self.rng
        if not self.handlers: return None
        h = rng.choice(sorted(self.handlers))
        x = rng.random()
        if x < 0.15: return ["raise", h, rng.choice(["NotFound", "RuntimeError"])]
        last = rng.random() < 0.5
        return ["respond", h, rng.choice([CONTENT, CONTENT, NOT_FOUND]), last, None if last and rng.random() < 0.6 else rng.randint(1, 50), last and rng.random() < 0.4]
    def ev_time(self):
        rng = self.rng
        return rng.choice([["fire"], ["fire"], ["adv", rng.choice([1, 50_000, 99_999, 100_000, 100_001, 1_000_000, 1_999_999, 2_000_000, 3_000_000, 30_000_000, 128_000_001, 247_000_000])]])
    def ev_misc(self):
        rng = self.rng
        if rng.random() < 0.5 and self.nq:
            q = rng.randint(1, self.nq)
            if q in self.slow_ever: return None          # cancelling a request during its remote lookup is not modelled
            return ["cancel", q]
        return ["err", rng.choice(["p1", "p2", "p3"])]
    def busy_step(self):
        rng = self.rng
        for _ in range(20):
            f = rng.choices([self.ev_request, self.ev_peer_response, self.ev_ack, self.ev_peer_request, self.ev_peer_other, self.ev_handler, self.ev_time, self.ev_misc, self.ev_resolve],
                            [5, 5, 3, 5, 1.5, 4, 4, 1, 1])[0]
            ev = f()
            if ev is not None: return self.do(ev)
    def shutdown_and_after(self, n_after):
        rng = self.rng
        self.do(["shutdown"]); self.down = True
        for _ in range(n_after):
            x = rng.random()
            if x < 0.45: self.do(["fire"])
            elif x < 0.6 and self.handlers: self.do(self.ev_handler())
            elif x < 0.72: self.do(self.ev_request())
            elif x < 0.8: self.do(self.ev_misc() or ["err", "p1"])
            elif x < 0.86 and self.slow: self.do(self.ev_resolve())
            else: self.do(self.ev_time())
        for h in sorted(self.handlers): self.do(["respond", h, CONTENT, True, None])       # every handler completes late
        for q in sorted(self.slow):
            if rng.random() < 0.7: self.do(["resolve", q])                                  # the lookup returns late (or never)
        self.slow = {}
        self.do(self.ev_request())
        for _ in range(len(self.sim.own_timers())): self.do(["fire"])
        self.do(["adv", 300_000_000])


def epilogue(prefix_rest, handlers, nq):
    """what still happens after a shutdown inserted into a template: every later event of the template that does not
    come from the (closed) transport, then late completion of every handler, a fresh request, all timers, 300 s"""
    out = [e for e in prefix_rest if e[0] not in ("recv", "shutdown")]
    out += [["respond", h, CONTENT, True, None] for h in handlers]
    out += [["reqslow", nq + 3, "p3", CON, True], ["resolve", nq + 3]]
    out += [["req", nq + 1, "p1", CON, True], ["req", nq + 2, "p2", NON, False], ["err", "p1"]]
    out += [["fire"]] * 12 + [["adv", 300_000_000], ["fire"]]
    return out

# busy scenario templates (mid0 = 0, tok0 = 0: own tokens are 1,2,..., own message ids 0,1,...)
TEMPLATES = {
    "name_resolution_in_progress": [
        ["reqslow", 1, "p1", CON, False], ["req", 2, "p1", CON, True], ["reqslow", 3, "p2", NON, True], ["resolve", 1], ["reqslow", 4, "p1", CON, True],
        ["recv", "p1", ACK, CONTENT, 0, 1, 3], ["resolve", 3], ["adv", 2_000_000], ["reqslow", 5, "p3", CON, False]],
    "handlers_lingering_after_last_response": [
        ["recv", "p1", CON, GET, 100, 7, None], ["recv", "p2", NON, GET, 200, 8, 0], ["respond", 0, CONTENT, True, None, True], ["respond", 1, CONTENT, False, 1],
        ["recv", "p1", CON, GET, 101, 9, None], ["adv", 100_000], ["respond", 2, CONTENT, True, None, True], ["respond", 1, NOT_FOUND, True, None, True]],
    "awaiting_ack_and_backlog": [
        ["req", 1, "p1", CON, False], ["req", 2, "p1", CON, False], ["req", 3, "p1", NON, False], ["req", 4, "p2", CON, True],
        ["fire"], ["req", 5, "p1", CON, True], ["adv", 1_000_000], ["recv", "p1", ACK, 0, 0, 0, None], ["fire"], ["fire"]],
    "awaiting_separate_response": [
        ["req", 1, "p1", CON, False], ["recv", "p1", ACK, 0, 0, 0, None], ["req", 2, "p2", NON, False], ["adv", 5_000_000],
        ["req", 3, "p1", CON, False], ["recv", "p1", ACK, 0, 2, 0, None], ["recv", "p1", CON, CONTENT, 150, 1, None]],
    "client_observations": [
        ["req", 1, "p1", CON, True], ["recv", "p1", ACK, CONTENT, 0, 1, 10], ["req", 2, "p2", NON, True], ["recv", "p2", NON, CONTENT, 210, 2, 1],
        ["recv", "p1", CON, CONTENT, 160, 1, 11], ["recv", "p2", NON, CONTENT, 211, 2, 2], ["req", 3, "p1", CON, True], ["adv", 2_500_000],
        ["recv", "p1", NON, CONTENT, 161, 1, 9]],
    "server_handlers_and_empty_ack_timers": [
        ["recv", "p1", CON, GET, 100, 7, None], ["recv", "p2", NON, GET, 200, 8, None], ["adv", 60_000], ["recv", "p1", CON, GET, 101, 9, None],
        ["adv", 40_000], ["recv", "p3", CON, GET, 300, 7, None], ["respond", 1, CONTENT, True, None], ["fire"], ["respond", 0, CONTENT, True, None], ["fire"]],
    "server_observations": [
        ["recv", "p1", CON, GET, 100, 7, 0], ["respond", 0, CONTENT, False, 1], ["recv", "p2", NON, GET, 200, 8, 0], ["respond", 1, CONTENT, False, 1],
        ["respond", 0, CONTENT, False, 2], ["respond", 1, CONTENT, False, 2], ["respond", 0, CONTENT, False, 3], ["recv", "p1", ACK, 0, 0, 0, None],
        ["fire"], ["recv", "p1", RST, 0, 1, 0, None]],
    "dedup_entries_and_duplicates": [
        ["recv", "p1", CON, GET, 100, 7, None], ["respond", 0, CONTENT, True, None], ["recv", "p1", CON, GET, 100, 7, None], ["recv", "p1", NON, GET, 101, 8, None],
        ["adv", 200_000_000], ["recv", "p2", CON, GET, 200, 9, None], ["adv", 46_999_999], ["fire"], ["recv", "p1", CON, GET, 100, 7, None]],
    "retransmission_running_out": [
        ["req", 1, "p1", CON, False], ["req", 2, "p1", CON, True], ["recv", "p1", CON, GET, 100, 7, None], ["fire"], ["fire"], ["fire"], ["fire"], ["fire"], ["fire"], ["fire"]],
    "everything_at_once": [
        ["req", 1, "p1", CON, True], ["recv", "p1", CON, GET, 100, 7, 0], ["req", 2, "p1", CON, False], ["recv", "p2", CON, GET, 200, 8, None],
        ["recv", "p1", ACK, CONTENT, 0, 1, 4], ["respond", 0, CONTENT, False, 1], ["req", 3, "p2", NON, True], ["recv", "p2", NON, CONTENT, 201, 3, 7],
        ["respond", 1, CONTENT, False, 5], ["req", 4, "p3", CON, False], ["adv", 90_000], ["recv", "p3", CON, GET, 300, 9, None], ["err", "p3"],
        ["recv", "p1", CON, GET, 102, 10, None], ["cancel", 2]],
}


# ----------------------------------------------------------------------------- twoctx: real client and real Site server, back to back
class Two:
    """client context C (BlockwiseRequest, ClientObservation) and server context S (resource.Site with a large resource, a
    block1 sink, an observable resource and a slow handler) joined by a scripted wire; either can be shut down"""
    def __init__(self, inp):
        import simloop, simnet, aiocoap.protocol as proto
        from aiocoap import resource, Message
        self.loop = loop = simloop.VLoop()
        simnet.patch_random(Fraction(2), 10, 20)
        self._old_time = proto.time; proto.time = _VTime(loop)
        self.logerrs = []; self.probe = _LogProbe(self.logerrs)
        lg = logging.getLogger("coap"); self._old = (lg.level, lg.propagate); lg.setLevel(logging.DEBUG); lg.propagate = False; lg.addHandler(self.probe)
        two = self
        self.slow = {"started": 0, "cancelled": 0, "finished": 0, "futs": []}
        class Big(resource.Resource):
            async def render_get(self, request): return Message(payload=b"0123456789" * 300)
        class Sink(resource.Resource):
            async def render_put(self, request): return Message(code=68, payload=str(len(request.payload)).encode())
        class Obs(resource.ObservableResource):
            def __init__(self): super().__init__(); self.n = 0
            async def render_get(self, request): return Message(payload=b"n=%d " % self.n + b"y" * 200)
        class Slow(resource.Resource):
            async def render_get(self, request):
                two.slow["started"] += 1
                f = loop.create_future(); two.slow["futs"].append(f)
                try:
                    await f; two.slow["finished"] += 1
                    return Message(payload=b"late")
                except asyncio.CancelledError:
                    two.slow["cancelled"] += 1; raise
        with loop.enter():
            site = resource.Site(); self.obs = Obs()
            site.add_resource(["big"], Big()); site.add_resource(["sink"], Sink()); site.add_resource(["obs"], self.obs); site.add_resource(["slow"], Slow())
        self.ctx = {}; self.mman = {}; self.mi = {}
        for name, st in (("C", None), ("S", site)):
            c, t, m, i = simnet.make_stack(loop, st); self.ctx[name] = c; self.mman[name] = m; self.mi[name] = i
        self.peer = {"C": "S", "S": "C"}
        self.flight = []; self.reqs = {}; self.notifs = {}; self.obsend = {}
        self.down_at = {}; self.sent_after_down = {"C": 0, "S": 0}; self.sd_task = {}; self.z_sent = {"C": [], "S": []}
    def close(self):
        import aiocoap.protocol as proto
        proto.time = self._old_time
        lg = logging.getLogger("coap"); lg.removeHandler(self.probe); lg.setLevel(self._old[0]); lg.propagate = self._old[1]
        for f in self.slow["futs"]:
            if not f.done(): f.cancel()
        self.loop.drain(); self.loop.exceptions.clear()
    def collect(self):
        for name in ("C", "S"):
            for (t, remote, raw) in self.mi[name].take():
                if name in self.down_at: self.sent_after_down[name] += 1
                if remote.name == "Z": self.z_sent[name].append(raw)
                else: self.flight.append((remote.name, raw, name))
    def start(self, key, method, path, payload=b"", observe=False):
        import simnet
        from aiocoap import Message
        m = Message(code=method, payload=payload, uri="coap://S/" + path) if False else Message(code=method, payload=payload)
        m.opt.uri_path = (path,); m.remote = simnet.Addr("S")
        if observe: m.opt.observe = 0
        with self.loop.enter():
            r = self.ctx["C"].request(m); self.reqs[key] = r
            if r.observation is not None:
                self.notifs[key] = 0
                r.observation.register_callback(lambda resp, k=key: self.notifs.__setitem__(k, self.notifs[k] + 1), _suppress_deprecation=True)
                r.observation.register_errback(lambda e, k=key: self.obsend.__setitem__(k, errname(e)), _suppress_deprecation=True)
        self.loop.drain(); self.collect()
    def pump(self, drop=False):
        import simnet
        if not self.flight: return
        dest, raw, src = self.flight.pop(0)
        if drop or dest in self.down_at: return            # lost, or the destination's socket is closed
        try: simnet.inject(self.loop, self.mman[dest], raw, simnet.Addr(src))
        except Exception as e: self.logerrs.append("dispatch:" + type(e).__name__)
        self.collect()
    def apply(self, ev):
        k = ev[0]
        if k == "get_big": self.start("big", GET, "big")
        elif k == "put_sink": self.start("sink", 3, "sink", payload=b"abcdefgh" * 400)
        elif k == "observe": self.start("obs", GET, "obs", observe=True)
        elif k == "get_slow": self.start("slow", GET, "slow")
        elif k == "pump": self.pump()
        elif k == "drop": self.pump(drop=True)
        elif k == "trigger":
            self.obs.n += 1
            with self.loop.enter(): self.obs.updated_state()
        elif k == "release_slow":
            for f in self.slow["futs"]:
                if not f.done(): f.set_result(None)
        elif k == "fire": self.loop.fire_next()
        elif k == "adv": self.loop.advance(ev[1])
        elif k == "shutdown":
            x = ev[1]
            with self.loop.enter(): self.sd_task[x] = asyncio.ensure_future(self.ctx[x].shutdown(), loop=self.loop)
            self.loop.drain(); self.collect()
            if self.sd_task[x].done(): self.down_at[x] = self.loop.now_us()
        self.loop.drain(); self.collect()
    def outcome(self, key):
        r = self.reqs.get(key)
        if r is None: return None
        f = r.response
        if not f.done(): return ["pending"]
        if f.cancelled(): return ["cancelled"]
        e = f.exception()
        return ["fail", errname(e)] if e is not None else ["resp", int(f.result().code), len(f.result().payload)]
    def snapshot(self):
        return {"requests": {k: self.outcome(k) for k in sorted(self.reqs)}, "notifs": dict(self.notifs), "obsend": dict(self.obsend),
                "slow": {k: v for k, v in self.slow.items() if k != "futs"}, "shutdown_returned": sorted(self.down_at),
                "sent_after_down": dict(self.sent_after_down), "loop_exceptions": [describe_loop_exc(c) for c in self.loop.exceptions] + list(self.logerrs)}
    def run_out(self):
        """deliver everything still in flight, let all timers fire"""
        for _ in range(400):
            while self.flight: self.pump()
            if self.loop.fire_next() is None: break
            self.collect()
        self.loop.advance(1); self.collect()
    def survivor_works(self, y):
        """the context that was not shut down completes a fresh exchange with a third party Z"""
        import simnet
        from aiocoap import Message
        if y == "C":
            m = Message(code=GET, _mtype=NON); m.opt.uri_path = ("x",); m.remote = simnet.Addr("Z")
            with self.loop.enter(): r = self.ctx["C"].request(m, handle_blockwise=False)
            self.loop.drain(); self.collect()
            if not self.z_sent["C"]: return "no request on the wire"
            q = Message.decode(self.z_sent["C"][-1], simnet.Addr("C"))
            a = Message(_mtype=NON, _mid=4242, code=CONTENT, _token=q.token, payload=b"ok")
            simnet.inject(self.loop, self.mman["C"], a.encode(), simnet.Addr("Z"))
            return "ok" if r.response.done() and not r.response.cancelled() and r.response.exception() is None else "no response"
        q = Message(_mtype=NON, _mid=4243, code=GET, _token=b"\x55"); q.opt.uri_path = ("sink",)
        q = Message(_mtype=NON, _mid=4243, code=3, _token=b"\x55", payload=b"zz"); q.opt.uri_path = ("sink",)
        simnet.inject(self.loop, self.mman["S"], q.encode(), simnet.Addr("Z")); self.collect()
        return "ok" if self.z_sent["S"] else "no response"

TWO_TEMPLATE = [["get_big"], ["put_sink"], ["observe"], ["get_slow"], ["pump"], ["pump"], ["pump"], ["pump"], ["pump"], ["pump"], ["trigger"], ["pump"], ["pump"],
                ["adv", 150_000], ["pump"], ["pump"], ["drop"], ["pump"], ["trigger"], ["pump"], ["pump"], ["fire"], ["pump"], ["pump"], ["pump"], ["pump"]]

TURNS_BUSY = [["recv", "p1", CON, GET, 100, 7, None], ["recv", "s1", CON, GET, 400, 8, 0], ["req", 1, "p2", CON, False], ["req", 2, "s2", CON, True],
              ["recv", "s1", NON, GET, 401, 9, None], ["req", 3, "p2", CON, True], ["adv", 50_000], ["recv", "s2", ACK, CONTENT, 0, 1, 4]]
def turns_cases(tier, rng):
    triggers = [["hshutdown", 0], ["hshutdown", 1], ["hshutdown", 2], ["shutdown"]]
    triggers += [["shutdown_cancel", n] for n in (1, 2, 3, 4, 6)]
    triggers += [[k, n, q] for k in ("shutdown_then_cancel", "cancel_then_shutdown") for n in (0, 1, 2, 3) for q in (1, 2)]
    # a handler whose pipe has ended (lingering after its last response) is not cancelled by shutdown: its await of shutdown returns
    linger = [["respond", 0, CONTENT, True, None, True], ["hshutdown", 0]]
    after = [["fire"], ["req", 50, "p1", CON, False], ["req", 51, "s1", NON, True], ["respond", 1, CONTENT, True, None], ["respond", 2, CONTENT, False, 3],
             ["fire"], ["fire"], ["fire"], ["adv", 3_000_000], ["fire"], ["fire"], ["adv", 300_000_000]]
    for ifaces in (2, 1):
        for mode in ("deferred", "prompt"):
            for trig in triggers + [linger]:
                if tier == "quick" and (mode, ifaces) != ("deferred", 2) and (trig[0] not in ("hshutdown", "shutdown_then_cancel", "shutdown_cancel") or trig[1] not in (0, 1)): continue
                t = trig if isinstance(trig[0], list) else [trig]
                yield {"uniform": 2_000_000, "mid0": 0, "tok0": 0, "ifaces": ifaces, "mi_mode": mode, "events": TURNS_BUSY + t + after}

def template_cases(name):
    """shutdown inserted at every position of a busy template"""
    T = TEMPLATES[name]
    nq = max([e[1] for e in T if e[0] in ("req", "reqslow")] + [0])
    nh = sum(1 for e in T if e[0] == "recv" and 1 <= e[3] < 32 and e[2] in (CON, NON))
    for k in range(len(T) + 1):
        yield {"uniform": 2_000_000, "mid0": 0, "tok0": 0, "template": name, "position": k,
               "events": T[:k] + [["shutdown"]] + epilogue(T[k:], list(range(nh)), nq)}


class C18(fw.Property):
    id = "C18"
    coq_props = "Props/C18.v"
    gen_jobs = ["c03_constants", "c14_message_id"]     # round 7: constants + message-ID successor tie (Proofs/C18Tie.v)
    model_imports = ["Verif.Model.C18"]
    quick_budget = 300
    thorough_budget = 6000
    design_ref = "DESIGN.md section 15 (C18)"
    technique = ("Coq invariant proofs over an executable model of the shutdown slice of the message layer (TokenManager, MessageManager, "
                 "Request generator, event-loop timers); differential correspondence against the real stack on a virtual-time loop")
    level_text = ("Theorems (closed under the global context) over Model/C18.v. Main theorem C18_shutdown_at_any_moment: for every history before ++ [Shutdown] ++ after from a fresh context "
                  "(before: any peer datagrams, timers, client requests, handler actions, transport errors; after: any timer, lapse of time, late handler completion, new request, cancellation, "
                  "transport error), with conditions on the event lists only (shutdown called once, distinct request labels, < 2^64 tokens): the Shutdown step cancels every handler, fails every "
                  "outstanding request / observation with a library error and returns; every request ever submitted is settled by then; afterwards nothing is sent, raised, delivered or started; new "
                  "requests fail at once with LibraryShutdown; the remaining timers run out. Supporting invariants proved for all reachable states: every cancellable timer is referenced from "
                  "_active_exchanges/_piggyback_opportunities (NSTART bookkeeping), every unsettled request is in outgoing_requests, every dedup-expiry timer finds its key. Two contexts are independent. "
                  "The model is tied to the code by running both on the same event scripts (shutdown at every position of busy templates + random walks generated against the live stack).")
    level_note = ("SHUTDOWN_TIMEOUT with a transport that never finishes closing is modelled as a layer over the machine (cstep/crun, theorem C18_shutdown_times_out, hung stream); several interfaces of which only some block are not. Runtime partial: garbage collection and real sockets after close() are outside the model. "
                  "Datagrams delivered to dispatch_message after shutdown are out of scope (udp6 closes its socket synchronously inside shutdown); a second Context.shutdown() is out of scope. "
                  "A running handler is identified with its incoming_requests entry by the model (a handler lingering after its last response is cancelled by the end of its pipe: modelled and driven). "
                  "Open finding C18:resolving-request-left-hanging: a request still inside Context.find_remote_and_interface at shutdown is not failed (modelled faithfully: ClientRequestSlow/Resolved; refutation witness proved). "
                  "C18_contexts_independent_* restate the definition of the two-context product. "
                  "Model abstractions: header-level messages, no multicast, no No-Response, default transport tuning, exceptions not propagated beyond the raising callback.")
    rule = ("script stream: an event script (peer datagram / fire next timer / advance clock / client request / cancel / handler respond or raise / transport error / shutdown) is run on the real "
            "Context+TokenManager+MessageManager over harness/simloop.py and on Model/C18.run; per step the datagrams on the wire (in order) and the application-visible outcomes are compared. "
            "Templates: 8 busy scenarios x shutdown at every position; walks: random histories generated against the live stack (peer answers what is really on the wire), shutdown at a random position, "
            "then timers, late handler completions, late requests; ~15 % of the requests are submitted while their remote still has to be looked up (reqslow / resolve events, resolved before, after or never), "
            "handlers may keep awaiting after their last response. hung stream (oracle only): templates and ~15 % of the walks with a transport that never finishes closing. outofscope stream (model compared, "
            "no property oracle): datagrams after shutdown and a second shutdown, which the property does not quantify over. twoctx stream (oracle only): real client (BlockwiseRequest, observations) and real resource.Site server over a lossy wire. "
            "Non-trivial = at shutdown something was outstanding (request, observation, handler, retransmission or empty-ACK timer, backlog, dedup entry); distinct by full input.")
    trusted_base = ["hand-written Model/C18.v (validated by the script stream on every run)",
                    "harness/simloop.py virtual-time loop (ideal timers, FIFO ready queue), harness/simnet.py fake transport",
                    "scripted application code (handler coroutine, request callbacks) in harness/props/c18.py"]
    assumptions = ["transport's shutdown() closes the socket before yielding (true of udp6, udp6.py:484-489): no datagram reaches dispatch_message after shutdown began; "
                   "if one did, the None tables raise TypeError, a ping is still answered with RST and a stored ACK re-sent (validated by the outofscope stream, not a finding: other transports are not anchored)",
                   "Context.shutdown is called once (a second call raises AttributeError from MessageManager.shutdown: application misuse, validated by the outofscope stream)",
                   "handlers and request callbacks supplied by the application do not themselves raise",
                   "request labels are distinct and fewer than 2^64 tokens are drawn (wf_history)",
                   "the application does not cancel a request while its remote is still being looked up (not modelled, never generated)",
                   "model events are atomic (an event and everything it triggers until the ready queue is empty); interleavings inside one loop iteration, shutdown awaited from a handler, "
                   "cancellation of the awaiting task and several request interfaces are covered by the oracle-only turns stream, not by the theorems"]

    # ------------------------------------------------------------------ generation
    def gen_cases(self, tier, rng, n):
        count = 0
        for name in TEMPLATES:
            for inp in template_cases(name):
                yield "script", inp; count += 1
        for name in TEMPLATES:                      # the transport never finishes closing: SHUTDOWN_TIMEOUT must end the wait
            T = TEMPLATES[name]
            for k in ([len(T)] if tier == "quick" else range(len(T) + 1)):
                inp = list(template_cases(name))[k]
                evs = inp["events"]; i = evs.index(["shutdown"])
                yield "hung", dict(inp, hang=True, events=evs[:i + 1] + [["adv", 2_999_999], ["adv", 1]] + evs[i + 1:]); count += 1
        for k in range(0, len(TWO_TEMPLATE) + 1, 2 if tier == "quick" else 1):
            for x in ("C", "S"):
                yield "twoctx", {"who": x, "position": k, "events": TWO_TEMPLATE[:k] + [["shutdown", x]] + TWO_TEMPLATE[k:]}; count += 1
        # shutdown requested from inside the context's own handler / by a task that is cancelled while it waits / with the application
        # cancelling a request in the same loop iteration; one or two request interfaces; transport closing at once or one turn later
        for inp in turns_cases(tier, rng):
            yield "turns", inp; count += 1
        # events outside the property's scope, to validate what the model (and notes) say about them: datagrams reaching
        # dispatch_message after shutdown (kinds for which no exception has to be propagated through further model code) and a
        # second Context.shutdown()
        for name in TEMPLATES:
            T = TEMPLATES[name]
            for k in ([len(T)] if tier == "quick" else range(len(T) + 1)):
                late = [rng.choice([["recv", "p1", CON, GET, 900 + j, rng.choice([7, 77]), None], ["recv", "p2", NON, GET, 950 + j, 8, 0],
                                    ["recv", "p1", CON, 0, 970 + j, 0, None], ["recv", "p1", NON, CONTENT, 980 + j, rng.choice([1, 2, 99]), rng.choice([None, 9])]] +
                                   [e for e in T if e[0] == "recv" and 1 <= e[3] < 32]) for j in range(4)]
                evs = T[:k] + [["shutdown"]] + late[:2] + [["fire"], ["shutdown"], ["fire"]] + late[2:] + [["fire"]] * 6 + [["adv", 300_000_000]]
                yield "outofscope", {"uniform": 2_000_000, "mid0": 0, "tok0": 0, "template": name, "position": k, "events": evs}; count += 1
        for _ in range(20 if tier == "quick" else 600):
            if True:
                evs = [[e] for e in ("get_big", "put_sink", "observe", "get_slow") if rng.random() < 0.8]
                rng.shuffle(evs)
                for _ in range(rng.randint(0, 60)):
                    evs.append(rng.choice([["pump"]] * 8 + [["drop"], ["trigger"], ["fire"], ["adv", rng.choice([50_000, 100_000, 2_000_000])], ["release_slow"]]))
                k = rng.randint(0, len(evs)); x = rng.choice(["C", "S"])
                yield "twoctx", {"who": x, "position": k, "events": evs[:k] + [["shutdown", x]] + evs[k:]}; count += 1
        while count < n:
            base = {"uniform": rng.choice([2_000_000, 2_000_000, 2_500_000, 3_000_000]), "mid0": rng.choice([0, 0, 5, 65533]), "tok0": rng.choice([0, 0, 41, 2**64 - 2])}
            w = Walk(rng, base)
            try:
                for _ in range(rng.choice([0, 2, 4, 6, 8, 12, 16, 24])): w.busy_step()
                w.shutdown_and_after(rng.randint(2, 10))
            finally:
                w.close()
            yield "script", dict(base, events=w.events); count += 1
            if rng.random() < 0.15:      # the same history with a transport that never finishes closing (oracle only)
                i = w.events.index(["shutdown"])
                yield "hung", dict(base, hang=True, events=w.events[:i + 1] + [["adv", 2_999_999], ["adv", 1]] + w.events[i + 1:]); count += 1

    # ------------------------------------------------------------------ implementation
    def impl(self, stream, inp):
        if stream == "twoctx":
            t = Two(inp)
            try:
                x = inp["who"]; k = inp["events"].index(["shutdown", x])
                for ev in inp["events"][:k + 1]: t.apply(ev)
                at_return = t.snapshot()
                for ev in inp["events"][k + 1:]: t.apply(ev)
                t.apply(["trigger"]); t.apply(["release_slow"])
                if x == "C": t.start("late", GET, "big")
                t.run_out()
                final = t.snapshot()
                return {"at_return": at_return, "final": final, "survivor": t.survivor_works(t.peer[x]), "loop_exceptions_end": [describe_loop_exc(c) for c in t.loop.exceptions] + list(t.logerrs)}
            finally:
                t.close()
        ref = bystander_reference(inp)
        s = Sim(inp)
        try:
            steps = [s.apply(ev) for ev in inp["events"]]
            late, left = s.finish()
            by = "same" if s.b_trace == ref else {"expected": ref, "got": s.b_trace}
            res = {"steps": steps, "late": late, "timers_left": left, "bystander": by, "orphan_timers": s.n_orphans}
            if stream == "turns": res["ifaces"] = s.A.state()
            if stream == "hung":
                res["shutdown_took_us"] = None if s.A.shutdown_returned_at is None else s.A.shutdown_returned_at - s.shutdown_called_at
            return res
        finally:
            s.close()

    # ------------------------------------------------------------------ model
    def model(self, stream, inp):
        if stream not in ("script", "outofscope", "hung"): return None
        evs = glist([g_event(e) for e in inp["events"]])
        ini = "(init %s %s %s)" % (gz(inp["uniform"]), gz(inp["mid0"]), gz(inp["tok0"]))
        if stream == "hung":
            # Context.shutdown over a transport that never finishes closing: the layered machine [crun] with the SHUTDOWN_TIMEOUT timer
            cevs = glist(["CShutdown false" if e[0] == "shutdown" else "CEvent (%s)" % g_event(e) for e in inp["events"]])
            return ("let r := crun {| c_base := %s; c_wait := None |} %s in let b := c_base (fst r) in "
                    "let f := advance_to ADVANCE_FUEL b (Z.max (now (mm b) + 300000000) 400000000) in "
                    "(snd r, snd f ++ match c_wait (fst r) with Some _ => [OShutdownDone] | None => [] end, Z.of_nat (List.length (pending (mm (fst f)))), run_orphans %s %s)") % (ini, cevs, ini, evs)
        return ("let r := run %s %s in let f := advance_to ADVANCE_FUEL (fst r) (Z.max (now (mm (fst r)) + 300000000) 400000000) in "
                "(snd r, snd f, Z.of_nat (List.length (pending (mm (fst f)))), run_orphans %s %s)") % (ini, evs, ini, evs)
    def decode(self, stream, inp, p):
        steps, late, left, orph = fw.plain(p)
        res = {"steps": [canon_step([d_output(o) for o in st]) for st in steps], "late": canon_step([d_output(o) for o in late]), "timers_left": left, "bystander": "same",
               "orphan_timers": orph}
        if stream == "hung":     # asyncio's timer fires exactly at its deadline
            returned = any(["shutdown_done"] in st for st in res["steps"]) or ["shutdown_done"] in res["late"]
            res["shutdown_took_us"] = 3_000_000 if returned else None
        return res

    # ------------------------------------------------------------------ oracle
    def oracle(self, stream, inp, res):
        if "harness_exception" in res: return ("C18:crash:" + res["where"], "implementation raised %s: %s" % (res["harness_exception"], res.get("text")))
        if stream == "turns": return self.oracle_turns(inp, res)
        if stream == "outofscope":
            return None      # events the property does not quantify over (see rule): only the model's account of them is compared
        if stream == "twoctx":
            x = inp["who"]; a = res["at_return"]; f = res["final"]
            if x not in a["shutdown_returned"]: return ("C18:shutdown-not-completed", "Context.shutdown of %s did not return" % x)
            if x == "C":
                for key, o in a["requests"].items():
                    if o == ["pending"]: return ("C18:request-left-hanging", "block-wise request %r still pending when shutdown returned" % key)
                    if o[0] == "fail" and not is_library_error(o[1]): return ("C18:not-a-library-error", "request %r ended with %s" % (key, o[1]))
                if a["requests"].get("obs", [""])[0] == "resp" and "obs" not in a["obsend"]:
                    return ("C18:observation-left-hanging", "block-wise observation not ended when shutdown returned")
                if "obs" in a["obsend"] and not is_library_error(a["obsend"]["obs"]): return ("C18:not-a-library-error", "observation ended with %s" % a["obsend"]["obs"])
                if f["requests"].get("late") != ["fail", "LibraryShutdown"]: return ("C18:late-request-hangs", "request after shutdown: %r" % (f["requests"].get("late"),))
            else:
                sl = a["slow"]
                if sl["started"] != sl["cancelled"] + sl["finished"]: return ("C18:handler-not-cancelled", "slow handler still running after shutdown: %r" % sl)
            if f["sent_after_down"][x]: return ("C18:send-after-shutdown", "%d datagrams sent by %s after its shutdown returned" % (f["sent_after_down"][x], x))
            if res["loop_exceptions_end"]: return ("C18:exception-after-shutdown:" + res["loop_exceptions_end"][0].split(":")[0], "event loop / logging exceptions: %r" % res["loop_exceptions_end"][:3])
            if res["survivor"] != "ok": return ("C18:bystander-affected", "the other context could not complete a fresh exchange: %s" % res["survivor"])
            return None
        evs = inp["events"]; steps = res["steps"]
        try: k = [e[0] for e in evs].index("shutdown")
        except ValueError: k = None
        if res["bystander"] != "same": return ("C18:bystander-affected", "the second context's trace differs from its trace when running alone")
        # kret: the step in which Context.shutdown returned
        kret = None
        if k is not None:
            for i in range(k, len(steps)):
                if ["shutdown_done"] in steps[i]: kret = i; break
            if kret is None: return ("C18:shutdown-not-completed", "Context.shutdown never returned: %r" % steps[k])
            if stream == "hung":
                if res["shutdown_took_us"] is None or res["shutdown_took_us"] > 3_000_000:
                    return ("C18:shutdown-exceeds-timeout", "Context.shutdown took %r us with a transport that does not close" % res["shutdown_took_us"])
            elif kret != k: return ("C18:shutdown-not-completed", "Context.shutdown did not return at once although the transport closes promptly: %r" % steps[k])
        done = {}; obsdone = {}; observe = {}; submitted_at = {}; slow = {}; lookup_pending = None
        for i, (ev, out) in enumerate(zip(evs, steps)):
            if ev[0] in ("req", "reqslow"): observe[ev[1]] = ev[4]; submitted_at[ev[1]] = i
            if ev[0] == "reqslow": slow[ev[1]] = None
            if ev[0] == "resolve" and ev[1] in slow and slow[ev[1]] is None: slow[ev[1]] = i
            for o in out:
                if o[0] == "exc":
                    if k is not None and i >= k: return ("C18:exception-after-shutdown:" + o[1], "step %d (%r) after shutdown raised %s" % (i, ev, o[1]))
                    return ("C18:exception-before-shutdown:" + o[1], "step %d (%r) raised %s" % (i, ev, o[1]))
                if o[0] in ("resp", "fail", "cancelled"):
                    done.setdefault(o[1], (i, o))
                    if o[0] == "resp" and o[3] is None: obsdone.setdefault(o[1], (i, o))      # no Observe option: no observation to end
                if o[0] == "obsend": obsdone.setdefault(o[1], (i, o))
                if o[0] == "cancelled": obsdone.setdefault(o[1], (i, o))
                if k is not None and i > kret:
                    if o[0] == "send": return ("C18:send-after-shutdown", "step %d (%r) after shutdown put %r on the wire" % (i, ev, o))
                    if o[0] in ("resp", "notif", "hstart"): return ("C18:activity-after-shutdown", "step %d (%r): %r" % (i, ev, o))
                if k is not None and i == k and o[0] == "running_after_shutdown":
                    return ("C18:handler-not-cancelled", "handler %d still running after shutdown" % o[1])
            if k is not None and i > kret and (ev[0] == "req" or (ev[0] == "resolve" and slow.get(ev[1]) == i)):
                q = ev[1]
                got = [o for o in out if o[0] == "fail" and o[1] == q]
                if not got: return ("C18:late-request-hangs", "request %d submitted after shutdown did not fail at once: %r" % (q, out))
                if got[0][2] != "LibraryShutdown": return ("C18:late-request-wrong-error", "request %d submitted after shutdown failed with %s" % (q, got[0][2]))
        if k is None: return None
        for q, i in submitted_at.items():
            if i > k: continue
            if q in slow and (slow[q] is None or slow[q] > kret) and (q not in done or done[q][0] > kret):
                # still inside Context.request's remote lookup when shutdown returned: in no table, not failed (listed finding); judged last
                lookup_pending = ("C18:resolving-request-left-hanging", "request %d (submitted at step %d) was still looking for its remote at shutdown; it has no outcome when shutdown returns" % (q, i))
                continue
            if q not in done or done[q][0] > kret:
                return ("C18:request-left-hanging", "request %d (submitted at step %d) has no outcome when shutdown returns" % (q, i))
            if observe[q] and (q not in obsdone or obsdone[q][0] > kret):
                return ("C18:observation-left-hanging", "observation of request %d has not ended when shutdown returns" % q)
            for (j, o) in (done[q], obsdone.get(q, done[q])):
                if j >= k and o[0] in ("fail", "obsend") and not is_library_error(o[2]):
                    return ("C18:not-a-library-error", "request %d ended by shutdown with %s" % (q, o[2]))
        for o in res["late"]:
            if o[0] in ("send", "exc", "resp", "notif", "hstart"): return ("C18:late-" + o[0], "after the script, letting all timers run out: %r" % (o,))
        if res["timers_left"]: return ("C18:timers-left", "%d timers of the shut-down context are still pending 300 s later" % res["timers_left"])
        return lookup_pending

    def oracle_turns(self, inp, res):
        """after shutdown was requested (and had started), every request interface's shutdown has run to completion, whoever awaited it"""
        evs = inp["events"]; steps = res["steps"]
        trig = ("hshutdown", "shutdown", "shutdown_cancel", "shutdown_then_cancel", "cancel_then_shutdown")
        k = [i for i, e in enumerate(evs) if e[0] in trig][-1]
        for i, out in enumerate(steps):
            for o in out:
                if o[0] == "exc":
                    if i == k and o[1] == "InvalidStateError" and evs[k][0] in ("shutdown_then_cancel", "cancel_then_shutdown"):
                        return ("C18:shutdown-raises:InvalidStateError", "Context.shutdown() raised InvalidStateError (%r): shutdown aborted, interfaces %r" % (evs[k], res["ifaces"]))
                    return ("C18:exception-after-shutdown:" + o[1] if i >= k else "C18:exception-before-shutdown:" + o[1], "step %d (%r) raised %s" % (i, evs[i], o[1]))
        for o in res["late"]:
            if o[0] == "exc": return ("C18:exception-after-shutdown:" + o[1], "letting the timers run out raised %s" % o[1])
        for n, st in enumerate(res["ifaces"]):
            if not all(st.values()): return ("C18:interface-not-shut-down", "request interface %d after %r: %r" % (n, evs[k], st))
        for o in steps[k]:
            if o[0] == "running_after_shutdown": return ("C18:handler-not-cancelled", "handler %d still running after %r" % (o[1], evs[k]))
        done = {}; observe = {}; obsdone = {}
        for i, (ev, out) in enumerate(zip(evs, steps)):
            if ev[0] == "req": observe[ev[1]] = (ev[4], i)
            for o in out:
                if o[0] in ("resp", "fail", "cancelled"): done.setdefault(o[1], (i, o))
                if o[0] in ("obsend", "cancelled") or (o[0] == "resp" and o[3] is None): obsdone.setdefault(o[1], (i, o))
                if i > k and o[0] == "send": return ("C18:send-after-shutdown", "step %d (%r) put %r on the wire" % (i, ev, o))
                if i > k and o[0] in ("resp", "notif", "hstart"): return ("C18:activity-after-shutdown", "step %d (%r): %r" % (i, ev, o))
            if i > k and ev[0] == "req":
                got = [o for o in out if o[0] == "fail" and o[1] == ev[1]]
                if not got: return ("C18:late-request-hangs", "request %d submitted after shutdown did not fail at once: %r" % (ev[1], out))
                if got[0][2] != "LibraryShutdown": return ("C18:late-request-wrong-error", "request %d failed with %s" % (ev[1], got[0][2]))
        for q, (ob, i) in observe.items():
            if i > k: continue
            if q not in done or done[q][0] > k: return ("C18:request-left-hanging", "request %d has no outcome after %r" % (q, evs[k]))
            if ob and (q not in obsdone or obsdone[q][0] > k): return ("C18:observation-left-hanging", "observation of request %d not ended after %r" % (q, evs[k]))
            for (j, o) in (done[q], obsdone.get(q, done[q])):
                if j == k and o[0] in ("fail", "obsend") and not is_library_error(o[2]): return ("C18:not-a-library-error", "request %d ended with %s" % (q, o[2]))
        if res["timers_left"]: return ("C18:timers-left", "%d timers still pending" % res["timers_left"])
        return None

    def nontrivial(self, stream, inp, res):
        if stream == "turns":
            return fw.jdump(inp) if "steps" in res else None
        if stream == "twoctx":
            a = res.get("at_return")
            if not a: return None
            busy = any(o and o[0] == "fail" for o in a["requests"].values()) if inp["who"] == "C" else (a["slow"]["cancelled"] > 0 or a["notifs"].get("obs", 0) > 0)
            return fw.jdump(inp) if busy else None
        if "steps" not in res: return None
        evs = inp["events"]
        try: k = [e[0] for e in evs].index("shutdown")
        except ValueError: return None
        busy = [o for o in res["steps"][k] if o[0] in ("fail", "obsend", "hcancel")]
        fired_after = any(e[0] in ("fire", "adv") for e in evs[k + 1:])
        return fw.jdump(inp) if (busy and fired_after) else None

PROPERTY = C18()
