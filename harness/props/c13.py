"""C13 — OSCORE nonces are never reused across restarts, crashes and exhaustion.

Correspondence of Model/C13.v with the real aiocoap.oscore.FilesystemSecurityContext (under the stubs), driven through
event histories (protect / bulk new_sequence_number / unprotect / clean stop / kill / reload) with a crash after every
file-system effect.  aiocoap.oscore.os / tempfile / io / secrets are rebound to recording wrappers; a crash is a
BaseException raised by the wrapper at the chosen step, after which the object is abandoned (lockfile = None, so that
__del__ persists nothing) and the context is loaded again from what is on disk."""
import os, sys, json, shutil, itertools
import fw
from fw import gz, gbool, glist, gopt

sys.path.append(os.path.join(fw.VERIF, "harness", "stubs"))

MAX_SEQNO = 2 ** 40 - 1
SALT = bytes.fromhex("9e7ca92223786340"); KEY = bytes.fromhex("0102030405060708090a0b0c0d0e0f10")
SETTINGS = {"sender-id_hex": "01", "recipient-id_hex": "02", "secret_hex": KEY.hex(), "salt_hex": SALT.hex()}
BAD_ECHO = 7


class Crash(BaseException):
    """the process dies here"""


# ------------------------------------------------------------------------------------------------ recording file system
class Recorder:
    """Counts the file-system effects of the code under test, kills the 'process' at the armed one, and checks after
    every single effect what a reload would find in sequence.json."""
    def __init__(self, base):
        self.base = base; self.arm = None; self.done = 0; self.crashed = False
        self.fd_path = {}; self.open_fds = set(); self.synced = {}
        self.durable = True; self.anomalies = []
        self.max_issued = None; self.accepted = set(); self.window_size = 32
        self.state = None; self.effects = []
        self.refresh("initial")
    # what is on disk right now
    def seq_path(self): return os.path.join(self.base, "sequence.json")
    def refresh(self, after):
        try:
            raw = open(self.seq_path(), "rb").read()
        except FileNotFoundError:
            self.state = None
            if self.max_issued is not None: self.note("sequence-json-missing after %s although numbers were issued" % after)
            if self.accepted: self.note("sequence-json-missing after %s although requests were accepted" % after)
            return
        try:
            d = json.loads(raw.decode("utf8")); nxt = d["next-to-send"]; recv = d["received"]
            assert isinstance(nxt, int)
            if recv == "unknown": r = "unknown"
            else:
                i, b = recv["index"], recv["bitfield"]
                r = ["win", None] if i is None and b is None else ["win", [i, b]]
                assert r[1] is None or (isinstance(i, int) and isinstance(b, int))
        except Exception:
            self.state = "corrupt"; self.note("corrupt-sequence-json after %s: %r" % (after, raw[:60])); return
        self.state = [nxt, r]
        if self.max_issued is not None and nxt <= self.max_issued:
            self.note("bound-not-above-issued after %s: next-to-send %d, number %d already issued" % (after, nxt, self.max_issued))
    def note(self, what):
        if len(self.anomalies) < 6: self.anomalies.append(what)
    def issued(self, n):
        """a number was handed out: it must be below the bound a reload would start from"""
        if not (isinstance(self.state, list) and self.state[0] > n):
            self.note("issued-beyond-persisted-bound: %d issued while disk says %r" % (n, self.state))
        self.max_issued = n if self.max_issued is None else max(self.max_issued, n)
    # arming
    fail_at = None; failed = False; ever_failed = False
    def begin(self, arm, fail_at=None): self.arm = arm; self.done = 0; self.crashed = False; self.fail_at = fail_at; self.failed = False
    def end(self): self.arm = None; self.fail_at = None
    real_kill = None     # in a forked child: file object to report through before os._exit
    partial = None
    def export(self):
        return {"max_issued": self.max_issued, "accepted": sorted(self.accepted), "durable": self.durable, "anomalies": self.anomalies, "ever_failed": self.ever_failed,
                "synced": {k: (v.hex() if v is not None else None) for k, v in self.synced.items()}}
    def absorb(self, d):
        self.max_issued = d["max_issued"]; self.accepted = set(d["accepted"]); self.durable = d["durable"]; self.anomalies = d["anomalies"]; self.ever_failed = d.get("ever_failed", False)
        self.synced = {k: (bytes.fromhex(v) if v is not None else None) for k, v in d["synced"].items()}
    def die(self):
        if self.real_kill is not None:
            # the real thing: no exception, no finally, no __exit__, no __del__ — the process is gone
            self.real_kill.write(json.dumps({"died": True, "partial": self.partial, "rec": self.export()}) + "\n"); self.real_kill.flush()
            os._exit(17)
        self.arm = None; self.crashed = True
        for fd in list(self.open_fds):
            try: os.close(fd)
            except OSError: pass
        self.open_fds.clear()
        raise Crash()
    def pre(self):
        if self.crashed: raise Crash()
        if self.fail_at is not None and self.done == min(max(self.fail_at, 0), 3):
            # the file-system call fails (ENOSPC): the process survives, the effect does not happen
            self.fail_at = None; self.failed = True; self.ever_failed = True
            raise OSError(28, "No space left on device (injected)")
        if self.arm is not None and self.arm == 0 and self.done == 0: self.die()
    def post(self, name):
        self.done += 1; self.effects.append(name); self.refresh(name)
        if self.arm is not None and self.done == self.arm: self.die()
    def content(self, path):
        try: return open(path, "rb").read()
        except OSError: return None
    def temps(self):
        out = []
        for f in sorted(os.listdir(self.base)):
            if f.startswith(".sequence-"):
                p = os.path.join(self.base, f); raw = self.content(p)
                if raw == b"": c = None
                else:
                    try:
                        d = json.loads(raw.decode("utf8")); recv = d["received"]
                        c = [d["next-to-send"], "unknown" if recv == "unknown" else ["win", None if recv["index"] is None else [recv["index"], recv["bitfield"]]]]
                    except Exception: c = "corrupt:" + raw[:40].hex()
                out.append([c, self.synced.get(p) is not None and self.synced.get(p) == raw])
        return sorted(out, key=fw.jdump)


class FileProxy:
    """what io.open(fd, 'wb') returns: data reaches the file at flush()"""
    def __init__(self, rec, fd): self.rec, self.fd, self.buf, self.closed = rec, fd, b"", False
    def write(self, b): self.buf += bytes(b); return len(b)
    def flush(self):
        if not self.buf: return
        self.rec.pre(); os.write(self.fd, self.buf); self.buf = b""; self.rec.post("write")
    def fileno(self): return self.fd
    def close(self):
        if self.closed: return
        self.closed = True
        if self.rec.crashed: return
        if self.buf and not self.rec.failed: self.flush()
        self.buf = b""
        self.rec.open_fds.discard(self.fd)
        try: os.close(self.fd)
        except OSError: pass
    def __enter__(self): return self
    def __exit__(self, *a): self.close(); return False

class OsProxy:
    def __init__(self, h): self._h = h
    def __getattr__(self, n): return getattr(os, n)
    def fsync(self, fd):
        rec = self._h.rec; rec.pre(); os.fsync(fd)
        p = rec.fd_path.get(fd)
        if p is not None: rec.synced[p] = rec.content(p)
        rec.post("fsync")
    def replace(self, src, dst):
        rec = self._h.rec; rec.pre()
        if os.path.basename(dst) == "sequence.json":
            ok = rec.synced.get(src) is not None and rec.synced.get(src) == rec.content(src)
            if not ok: rec.note("replace-unsynced: %s renamed onto sequence.json without its content having been fsynced" % os.path.basename(src)[:9])
            rec.durable = ok
        os.replace(src, dst); rec.post("replace")
    def rename(self, src, dst): return self.replace(src, dst)
    def unlink(self, p):
        rec = self._h.rec; rec.pre(); os.unlink(p); rec.post("unlink")
    def remove(self, p): return self.unlink(p)

class TempfileProxy:
    def __init__(self, h): self._h = h
    def __getattr__(self, n):
        import tempfile; return getattr(tempfile, n)
    def mkstemp(self, *a, **kw):
        import tempfile
        rec = self._h.rec; rec.pre()
        fd, name = tempfile.mkstemp(*a, **kw)
        rec.fd_path[fd] = name; rec.open_fds.add(fd); rec.post("mkstemp")
        return fd, name

class IoProxy:
    def __init__(self, h): self._h = h
    def __getattr__(self, n):
        import io; return getattr(io, n)
    def open(self, f, mode="r", *a, **kw):
        import io
        rec = self._h.rec
        if isinstance(f, int) and ("w" in mode or "a" in mode): return FileProxy(rec, f)
        if not isinstance(f, int) and os.path.basename(str(f)) == "sequence.json" and any(c in mode for c in "wa+x"):
            rec.note("direct-write: sequence.json opened for writing in place (mode %s)" % mode)
        return io.open(f, mode, *a, **kw)

class SecretsProxy:
    def __init__(self, h): self._h = h
    def __getattr__(self, n):
        import secrets; return getattr(secrets, n)
    def token_bytes(self, n=8): return self._h.next_echo.to_bytes(n, "big")


class Harness:
    rec = None; next_echo = 0
    installed = False
    def install(self):
        if self.installed: return
        import aiocoap.oscore as o
        o.os = OsProxy(self); o.tempfile = TempfileProxy(self); o.io = IoProxy(self); o.secrets = SecretsProxy(self)
        self.installed = True
H = Harness()

_client = {}
def client_ctx():
    import aiocoap.oscore as o
    if "c" not in _client:
        class Ctx(o.CanProtect, o.CanUnprotect, o.SecurityContextUtils):
            def post_seqnoincrease(self): pass
        c = Ctx()
        c.alg_aead = o.algorithms[o.DEFAULT_ALGORITHM]; c.hashfun = o.hashfunctions[o.DEFAULT_HASHFUNCTION]
        c.sender_id, c.recipient_id, c.id_context = b"\x02", b"\x01", None
        c.derive_keys(SALT, KEY); c.sender_sequence_number = 0
        _client["c"] = c
    return _client["c"]

def piv_of(protected):
    """sequence number as a receiver would read it from the OSCORE option of the protected message"""
    opt = protected.opt.oscore
    n = opt[0] & 7
    return int.from_bytes(opt[1:1 + n], "big")

def recv_json(recv):
    if recv == "unknown": return "unknown"
    if recv is None: return {"index": None, "bitfield": None}
    return {"index": recv[0], "bitfield": recv[1]}


# ------------------------------------------------------------------------------------------------ generator helpers
def store_points(start, limit, upto):
    """1-based indices of the new_sequence_number calls of a lifetime that reach _store"""
    pts, at, c = [], 1, start
    while at <= upto and len(pts) < 40:
        pts.append(at)
        if c <= 0: at += 1
        else: at += c
        c = min(c * 2, limit)
    return pts

CHUNKS = [(10, 10000)] * 6 + [(1, 4), (2, 2), (3, 100), (1, 1), (5, 40), (10, 10), (1, 10000), (100, 150), (0, 10), (7, 0)]


class C13(fw.Property):
    id = "C13"
    coq_props = "Props/C13.v"
    gen_jobs = ["oscore_replay", "oscore_seqno", "oscore_rwchanged"]
    model_imports = ["Verif.Gen.oscore_replay", "Verif.Model.C12", "Verif.Model.C13", "Verif.Model.C13Kernel"]
    quick_budget = 150
    thorough_budget = 3000
    design_ref = "DESIGN.md section 18"
    technique = ("Coq invariant proofs over an executable model of process state + disk state (every event list, every crash point); "
                 "differential correspondence against the real FilesystemSecurityContext with a recording/crashing file-system layer")
    level_text = ("Theorems (closed under the global context) over a hand-written executable model of new_sequence_number, post_seqnoincrease, _store (four file-system "
                  "effects, atomic rename), _replay_window_changed, _destroy, _load and the C12 request path, for every event list with a crash after any file-system effect: "
                  "issued numbers strictly increase over the whole history (hence no duplicate number / Partial IV), every issued number is below the bound on disk, refusal at 2^40-1, "
                  "the persisted replay state after any crash or clean stop either is unknown or rejects every number accepted before, no number is accepted twice over a whole "
                  "history unless through a fresh Echo exchange. The model is tied to the code by running both on the same histories.")
    level_note = ("Trusted: Coq kernel + vm_compute; the hand-written Model/C13.v (validated by the correspondence streams); translator + Lib/Py.v for the replay window code; "
                  "OS contract: os.replace is atomic and fsync makes content durable; crash = BaseException raised in the recording os/tempfile/io wrappers (thorough tier also kills real "
                  "subprocesses with os._exit); I/O errors (as opposed to crashes) and two processes on one directory (lock file) are outside the model; crypto/cbor/filelock stubs.")
    rule = ("round 5: Respond events (protect with the request identifiers the last unprotect handed on: 4.01 of ReplayErrorWithEcho or a response; twice = observation) follow "
            "unprotects in crash_sweep/history/replay, the identifiers' can_reuse_nonce is compared after every event; store_error = _store raising OSError after 0..3 effects inside "
            "protect / unprotect, then more operations, crash, reload (rolled back since /repo 304561f; own signatures C13:store-error:* should the defect return); echo_fresh = 3 oracle-only cases with the real secrets module. "
            "streams: kernels = the real new_sequence_number / post_seqnoincrease on a FilesystemSecurityContext subclass whose _store is a recording callback (failing when the "
            "bound to persist reaches a threshold) vs the definitions translated from source (Gen/oscore_seqno.v), and _replay_window_changed vs Gen/oscore_rwchanged.v (4 cases): counters at / around the persisted bound, chunk 0..10000, "
            "limits 0..10000, 2^40-1 +-2; crash_sweep = for chunk settings (10,10000),(1,4),(2,2),(3,100), each of the first store points, victim operation protect/seq/unprotect/stop, a crash after each "
            "of its file-system effects (0..4, stop 0..5), followed by reload, replays of recorded requests, Echo exchange, second stop/kill/crash and another reload (quick: sampled; "
            "thorough: all); history = random multi-lifetime histories (protect, bulk new_sequence_number aimed at chunk boundaries incl. 10,20,40..10000, fresh/replayed/forged requests, "
            "armed crashes, clean stops, kills, reload while alive, operations on a dead context, random initial sequence.json, window sizes 1,2,8,32,64); replay = accept, stop uncleanly or "
            "cleanly, resend recorded messages; exhaustion = initial next-to-send within 45 of 2^40-1. Non-trivial = at least two lifetimes, two acting operations and one stop/crash; distinct by input.")
    trusted_base = ["translator translate/py2v.py + Lib/Py.v prelude for Gen/oscore_seqno.v (new_sequence_number, post_seqnoincrease, MAX_SEQNO) and Gen/oscore_rwchanged.v (_replay_window_changed; validated by the kernels stream); "
                    "Props C13_new_sequence_number_is_source / C13_post_seqnoincrease_is_source / C13_replay_window_changed_is_source prove the model's kernels equal to it",
                    "hand-written Model/C13.v (validated by all four correspondence streams: per event output, sequence.json content, number of temp files; final temp files, lock, process fields)",
                    "translator translate/py2v.py + Lib/Py.v prelude for Gen/oscore_replay.v, and Model/C12.v for the request path (validated by C12 and by the unprotect events here)",
                    "OS contract: os.replace atomic, fsync durable; recording wrappers around aiocoap.oscore.os/tempfile/io/secrets",
                    "harness stubs for cbor2/cryptography(AES-CCM, HKDF)/filelock"]
    assumptions = ["I/O errors raised by _store are modelled as 'the file-system call fails before its effect' after 0..3 effects (ProtectFails / UnprotectFails; a failure reported after the rename took place, or errors inside _destroy, are not modelled)",
                   "chunk size parameters are non-negative (ev_ok); a negative chunk size lowers the persisted bound and is refuted by the model too",
                   "Echo values are unpredictable: a request carrying the current lifetime's Echo value was created in that lifetime, and the peer's numbers increase (echo_fresh)",
                   "I/O errors out of _store (as opposed to crashes) are outside the quantifier (DESIGN.md O4)"]

    # ---------------------------------------------------------------- generation
    def gen_cases(self, tier, rng, n):
        if tier == "thorough":
            for c in self.sweep_all(rng): yield "crash_sweep", c
        # the same kinds of histories with every lifetime in a forked process that is really killed (os._exit) at the armed step
        for k in range(8 if tier == "quick" else 160):
            r = k % 4
            yield "subprocess_kill", (self.sweep_one(rng) if r == 0 else self.gen_history(rng, "nobig") if r == 1 else self.gen_replay(rng) if r == 2 else self.gen_exhaustion(rng))
        # the translated kernels (Gen/oscore_seqno.v) against the real methods, _store replaced by a recording callback
        for flag in (True, False):
            for fail in (False, True): yield "kernels", {"rw": flag, "fail": fail}
        for k in range(36 if tier == "quick" else 1500): yield "kernels", self.gen_kernels(rng)
        # every load draws a fresh unpredictable Echo value (real secrets module, oracle only)
        for ends in (["stop", "kill", "stop"], ["kill", "kill"], ["protect+kill", "stop", "protect+kill"]): yield "echo_fresh", {"ends": ends}
        # _store raising OSError instead of dying: the callers roll back (fixed in /repo 304561f); what the code does afterwards, against the model
        for k in range(10 if tier == "quick" else 200): yield "store_error", self.gen_store_error(rng)
        quota = {"crash_sweep": 0.30, "history": 0.36, "replay": 0.22, "exhaustion": 0.12}
        sweep = None
        for k in range(n):
            x = (k * 0.6180339887) % 1.0; acc = 0.0
            for name, q in quota.items():
                acc += q
                if x < acc: break
            if name == "crash_sweep":
                yield name, self.sweep_one(rng)
            elif name == "history": yield name, self.gen_history(rng, tier)
            elif name == "replay": yield name, self.gen_replay(rng)
            else: yield name, self.gen_exhaustion(rng)

    def gen_store_error(self, rng):
        b = self.Builder(rng, 32, None if rng.random() < 0.6 else self.rand_disk(rng, 32))
        cfg = rng.choice(CHUNKS[:9]); b.reload(*cfg)
        pts = store_points(cfg[0], cfg[1], 400)
        if rng.random() < 0.55:
            pre = rng.choice(pts[:4]) - 1 + rng.choice([0, 0, 0, 1, -1])
            if pre > 0: b.seq(pre)
            b.ev.append(["protect_fails", rng.randint(0, 3)])
            for _ in range(rng.randint(1, 3)): (b.seq(rng.choice([1, 2, 5, cfg[0]])) if rng.random() < 0.6 else b.protect())
        else:
            if rng.random() < 0.5: b.seq(rng.randint(1, 12))
            n = b.client; b.client += 1
            b.ev.append(["unprotect_fails", n, True, None, rng.randint(0, 3)])
            for _ in range(rng.randint(1, 3)): b.fresh()
            if rng.random() < 0.4: b.protect()
        r = rng.random()
        if r < 0.6: b.kill()
        elif r < 0.8: b.stop()
        else: b.protect(rng.randint(0, 4))
        b.reload(*cfg); b.replay(); b.seq(rng.choice([1, 2, 3])); b.replay(); b.fresh()
        return b.case()

    def gen_kernels(self, rng):
        persisted = rng.choice([0, 0, 10, 30, 70, 1000, MAX_SEQNO - rng.randint(0, 30), MAX_SEQNO, rng.randint(0, 10 ** 6)])
        ssn = max(0, persisted + rng.choice([0, 0, 0, -1, -2, -9, -10, -11, 1, 2, -rng.randint(0, 40)]))
        if rng.random() < 0.1: ssn = MAX_SEQNO + rng.choice([-2, -1, 0, 1])
        chunk = rng.choice([10, 10, 20, 40, 5120, 10000, 1, 2, 3, 0, 7])
        limit = rng.choice([10000, 10000, 10000, 4, 2, 1, 100, 0, 10])
        t = rng.choice([None, None, None, persisted, persisted + chunk, persisted + chunk + min(chunk * 2, limit), persisted + rng.randint(0, 60)])
        ops = [rng.choice(["new", "new", "new", "post"]) for _ in range(rng.randint(1, 30))]
        return {"t": t, "ssn": ssn, "persisted": persisted, "chunk": chunk, "limit": limit, "ops": ops}

    class Builder:
        def __init__(self, rng, size=32, disk=None):
            self.rng, self.size, self.disk, self.ev = rng, size, disk, []
            self.echo = None; self.client = rng.choice([0, 0, 1, 5, 40]); self.sent = []
        def reload(self, start=10, limit=10000):
            self.echo = 1000 + len(self.ev); self.ev.append(["reload", start, limit])
        def protect(self, crash=None): self.ev.append(["protect", crash])
        def seq(self, n, crash=None): self.ev.append(["seq", n, crash])
        def stop(self, crash=None): self.ev.append(["stop", crash])
        def respond(self, crash=None): self.ev.append(["respond", crash])
        def maybe_respond(self, p=0.35):
            """the server answers the request it just unprotected (4.01 + Echo, or an ordinary response; sometimes two: an observation)"""
            if self.rng.random() < p:
                self.respond(self.rng.choice([None] * 9 + [0, 2, 4]))
                if self.rng.random() < 0.3: self.respond()
        def kill(self): self.ev.append(["kill"])
        def unprotect(self, seqno, authentic=True, echo=None, crash=None):
            self.ev.append(["unprotect", seqno, authentic, echo, crash])
            if authentic: self.sent.append((seqno, echo))
        def fresh(self, with_echo=False, crash=None, jump=None):
            """a new request of the genuine client: its numbers increase; it may carry the Echo value of the server's current lifetime"""
            rng = self.rng
            self.client += jump if jump is not None else rng.choice([0, 0, 0, 0, 1, 2, rng.choice([self.size - 1, self.size, self.size + 1, 2 * self.size + 3])])
            n = self.client; self.client += 1
            self.unprotect(n, True, self.echo if with_echo else None, crash)
            if crash is None: self.maybe_respond()
            return n
        def replay(self, crash=None):
            """an attacker resends a recorded message byte for byte: same number, same inner Echo option"""
            if not self.sent: return self.fresh()
            n, e = self.rng.choice(self.sent[-12:]); self.ev.append(["unprotect", n, True, e, crash])
            if crash is None: self.maybe_respond()
        def forged(self):
            n = self.rng.choice([self.client, self.client + 1] + [s for s, _ in self.sent[-3:]])
            self.ev.append(["unprotect", n, False, self.rng.choice([None, self.echo, BAD_ECHO]), None])
            self.maybe_respond(0.2)
        def case(self): return {"size": self.size, "disk": self.disk, "events": self.ev}

    def rand_disk(self, rng, size):
        r = rng.random()
        if r < 0.5: return None
        nxt = rng.choice([0, 1, 9, 10, 11, 30, 70, 1000, 65535, 2 ** 32, rng.randint(0, 300)])
        r = rng.random()
        if r < 0.3: recv = "unknown"
        elif r < 0.45: recv = None
        elif r < 0.7: recv = [0, 0]
        else:
            recv = [rng.choice([0, 1, 5, 40, 100]), rng.getrandbits(size) if rng.random() < 0.7 else (1 << size) - 1]
        return [nxt, recv]
    def rand_size(self, rng): return rng.choice([32] * 8 + [1, 2, 8, 64])

    # -- systematic: a crash after every file-system effect of every kind of operation that reaches _store, at and around chunk boundaries
    def sweep_params(self):
        out = []
        for cfg in [(10, 10000), (1, 4), (2, 2), (3, 100)]:
            pts = store_points(cfg[0], cfg[1], 10 ** 6)[:5]
            for bi, pt in enumerate(pts[:4]):
                for victim in ("protect", "seq", "unprotect", "stop"):
                    for k in range(0, 6 if victim == "stop" else 5):
                        for follow in ("kill", "stop", "crash2"):
                            out.append((cfg, bi, pt, victim, k, follow))
        return out
    def sweep_build(self, rng, prm):
        cfg, bi, pt, victim, k, follow = prm
        b = self.Builder(rng, 32, None if rng.random() < 0.7 else self.rand_disk(rng, 32))
        b.reload(*cfg)
        if rng.random() < 0.5: b.fresh()                   # an accepted request: sequence.json says "unknown" from here on
        pre = pt - 1                                       # numbers taken before the one that reaches _store
        if victim == "protect":
            if pre: b.seq(pre)
            b.protect(k)
        elif victim == "seq":
            off = rng.choice([0, 1, 2]); pre2 = max(0, pre - off)
            if pre2: b.seq(pre2)
            b.seq(off + rng.choice([1, 2, 5]), k)
        elif victim == "unprotect":
            if pre: b.seq(pre + rng.choice([0, 1]))
            b.fresh(crash=k)
        else:
            if pre: b.seq(pre + rng.choice([-1, 0, 1]) if pre > 1 else pre)
            if rng.random() < 0.6: b.fresh()
            b.stop(k)
        b.reload(*rng.choice([cfg, (10, 10000), (1, 4)]))
        b.protect(); b.replay(); b.fresh(with_echo=True); b.replay(); b.seq(rng.choice([1, 2, cfg[0], cfg[0] + 1, 12]))
        if follow == "kill": b.kill()
        elif follow == "stop": b.stop()
        else: b.protect(rng.randint(0, 4)) if rng.random() < 0.5 else b.stop(rng.randint(0, 5))
        b.reload(*cfg); b.replay(); b.protect(); b.seq(3); b.fresh(); b.replay()
        return b.case()
    def sweep_one(self, rng):
        if not hasattr(self, "_sweep"): self._sweep = self.sweep_params()
        return self.sweep_build(rng, rng.choice(self._sweep))
    def sweep_all(self, rng):
        for prm in self.sweep_params(): yield self.sweep_build(rng, prm)

    # -- random histories over several lifetimes
    def gen_history(self, rng, tier):
        size = self.rand_size(rng)
        b = self.Builder(rng, size, self.rand_disk(rng, size))
        big = tier != "nobig" and rng.random() < (0.04 if tier == "quick" else 0.08)          # crosses the chunk sizes 10, 20, 40 ... 10000
        for life in range(rng.randint(1, 5)):
            cfg = rng.choice(CHUNKS)
            b.reload(*cfg)
            taken = 0; pts = store_points(cfg[0], cfg[1], 30000)
            died = False
            for _ in range(rng.randint(0, 9)):
                crash = rng.choice([0, 1, 2, 3, 4]) if rng.random() < 0.12 else None
                r = rng.random()
                if r < 0.22: b.protect(crash); taken += 1
                elif r < 0.45:
                    nxt = [p for p in pts if p > taken]
                    if big and nxt and rng.random() < 0.5:
                        tgt = rng.choice(nxt[:12]); cnt = max(1, tgt - taken + rng.choice([-2, -1, 0, 1]))
                    elif nxt and rng.random() < 0.6:
                        tgt = nxt[0]; cnt = max(1, tgt - taken + rng.choice([-2, -1, 0, 1])) if tgt - taken < 200 else rng.randint(1, 30)
                    else: cnt = rng.randint(0, 25)
                    b.seq(cnt, crash); taken += cnt
                elif r < 0.68: b.fresh(with_echo=rng.random() < 0.45, crash=crash)
                elif r < 0.82: b.replay(crash)
                elif r < 0.88: b.forged()
                elif r < 0.92: b.reload(*cfg)                                   # a second process: must find the lock held
                elif r < 0.95 and b.sent: b.unprotect(rng.choice(b.sent)[0], True, b.echo)   # same number again with the current Echo value (outside what a peer does)
                else: b.unprotect(rng.randint(0, b.client + 2), True, rng.choice([None, b.echo, BAD_ECHO]))
                if crash is not None and rng.random() < 0.7: died = True; break
            if not died:
                r = rng.random()
                if r < 0.4: b.stop()
                elif r < 0.75: b.kill()
                elif r < 0.92: b.stop(rng.randint(0, 5))
                else: b.stop(); b.stop(); b.protect()                           # operations on a context that is gone
        if rng.random() < 0.5: b.reload(*rng.choice(CHUNKS)); b.protect(); b.replay(); b.fresh(with_echo=True); b.replay()
        return b.case()

    # -- replay state: accepted requests, then unclean / clean stop, then the recorded messages again
    def gen_replay(self, rng):
        size = self.rand_size(rng)
        b = self.Builder(rng, size, None if rng.random() < 0.6 else self.rand_disk(rng, size))
        for life in range(rng.randint(2, 4)):
            b.reload(*rng.choice(CHUNKS[:8]))
            for _ in range(rng.randint(1, 7)):
                r = rng.random()
                if r < 0.45: b.fresh(with_echo=rng.random() < 0.5, crash=rng.choice([None] * 7 + [0, 1, 2, 3, 4]))
                elif r < 0.75: b.replay()
                elif r < 0.82: b.forged()
                elif r < 0.92: b.protect(rng.choice([None] * 5 + [1, 4]))
                else: b.seq(rng.choice([1, 9, 10, 11]))
            r = rng.random()
            if r < 0.4: b.kill()
            elif r < 0.8: b.stop()
            else: b.stop(rng.randint(0, 5))
        b.reload(); b.replay(); b.replay(); b.fresh(with_echo=True); b.replay(); b.fresh(); b.replay()
        return b.case()

    # -- exhaustion at 2^40 - 1
    def gen_exhaustion(self, rng):
        delta = rng.choice([0, 0, 1, 2, 3, 9, 10, 11, 20, 30, rng.randint(0, 45)])
        recv = rng.choice(["unknown", None, [0, 0], [3, 5]])
        b = self.Builder(rng, 32, [MAX_SEQNO - delta, recv])
        cfg = rng.choice(CHUNKS)
        b.reload(*cfg)
        left = delta
        for _ in range(rng.randint(1, 5)):
            r = rng.random()
            if r < 0.4:
                cnt = max(0, left + rng.choice([-2, -1, 0, 1, 3])) if rng.random() < 0.6 else rng.randint(0, 12)
                b.seq(cnt, rng.choice([None] * 4 + [0, 2, 4])); left = max(0, left - cnt)
            elif r < 0.7: b.protect(rng.choice([None] * 6 + [3, 4])); left = max(0, left - 1)
            elif r < 0.8: b.fresh(with_echo=True)
            elif r < 0.9: b.kill(); b.reload(*cfg)
            else: b.stop(rng.choice([None, None, 4])); b.reload(*rng.choice(CHUNKS))
        b.protect(); b.seq(3); b.stop(); b.reload(*cfg); b.protect()
        return b.case()

    # ---------------------------------------------------------------- implementation
    def impl_kernels(self, inp):
        import aiocoap.oscore as o
        if "rw" in inp:
            class Flagged(Exception): pass
            class W(o.FilesystemSecurityContext):
                def __init__(self): self.lockfile = None
                def _store(self):
                    if self.replay_window_persisted: raise Flagged()
                    if inp["fail"]: raise Crash()
            w = W(); w.replay_window_persisted = inp["rw"]
            try: w._replay_window_changed()
            except Flagged: return {"rw": "exn:OtherError_14"}
            except Crash: return {"rw": "exn:OtherError_13"}
            except Exception as e: return {"rw": "exn:" + type(e).__name__}
            return {"rw": bool(w.replay_window_persisted)}
        t = inp["t"]
        class K(o.FilesystemSecurityContext):
            def __init__(self): self.lockfile = None; self.stores = []
            def _store(self):
                self.stores.append(self.sequence_number_persisted)
                if t is not None and self.sequence_number_persisted >= t: raise Crash()
        k = K()
        k.sender_sequence_number, k.sequence_number_persisted = inp["ssn"], inp["persisted"]
        k.sequence_number_chunksize, k.sequence_number_chunksize_limit = inp["chunk"], inp["limit"]
        out = []
        for op in inp["ops"]:
            try:
                r = k.new_sequence_number() if op == "new" else ("unit" if k.post_seqnoincrease() is None else "not-none")
            except Crash: out.append(["exn:OtherError_13", None]); break
            except Exception as e: out.append(["exn:" + type(e).__name__, None]); break
            out.append([r, [k.sender_sequence_number, k.sequence_number_persisted, k.sequence_number_chunksize, k.sequence_number_chunksize_limit]])
        return {"calls": out}

    def impl_echo(self, inp):
        """the real secrets module: every load draws a new 8-byte echo_recovery through secrets.token_bytes and stores it nowhere"""
        import aiocoap.oscore as o, secrets as real_secrets
        H.install()
        root = os.path.join(fw.BUILD, "C13-%d" % os.getpid()); os.makedirs(root, exist_ok=True)
        base = os.path.join(root, "ctx-echo"); shutil.rmtree(base, ignore_errors=True); os.makedirs(base)
        drawn = []
        class Spy:
            def __getattr__(self, n): return getattr(real_secrets, n)
            def token_bytes(self, n=None): v = real_secrets.token_bytes(n); drawn.append(v); return v
        saved, o.secrets = o.secrets, Spy()
        H.rec = Recorder(base)
        try:
            with open(os.path.join(base, "settings.json"), "w") as f: json.dump(SETTINGS, f)
            vals = []; leaked = []
            for how in inp["ends"]:
                c = o.FilesystemSecurityContext(base)
                vals.append(c.echo_recovery)
                if how == "protect+kill": c.new_sequence_number()
                if how == "stop": c._destroy()
                else: c.lockfile = None
                for fn in sorted(os.listdir(base)):
                    raw = open(os.path.join(base, fn), "rb").read()
                    for v in vals:
                        if isinstance(v, bytes) and len(v) and (v in raw or v.hex().encode() in raw.lower()): leaked.append(fn)
            ok = all(isinstance(v, bytes) for v in vals)
            return {"lens": [len(v) if isinstance(v, bytes) else -1 for v in vals], "distinct": ok and len(set(vals)) == len(vals),
                    "trivial": [v.hex() for v in vals if ok and len(set(v)) <= 1][:1], "leaked": sorted(set(leaked)),
                    "from_secrets": ok and all(v in drawn for v in vals)}
        finally:
            o.secrets = saved; H.rec = None
            shutil.rmtree(base, ignore_errors=True)
            try: os.rmdir(root)
            except OSError: pass

    def impl(self, stream, inp):
        import aiocoap, aiocoap.oscore as o
        if stream == "kernels": return self.impl_kernels(inp)
        if stream == "echo_fresh": return self.impl_echo(inp)
        H.install()
        root = os.path.join(fw.BUILD, "C13-%d" % os.getpid()); os.makedirs(root, exist_ok=True)
        base = os.path.join(root, "ctx"); shutil.rmtree(base, ignore_errors=True); os.makedirs(base)
        try:
            return self._run(aiocoap, o, base, inp, real_kill=(stream == "subprocess_kill"))
        finally:
            H.rec = None
            shutil.rmtree(base, ignore_errors=True)
            try: os.rmdir(root)
            except OSError: pass

    def _run(self, aiocoap, o, base, inp, real_kill=False):
        settings = dict(SETTINGS)
        if inp.get("size", 32) != 32: settings["window"] = inp["size"]
        with open(os.path.join(base, "settings.json"), "w") as f: json.dump(settings, f)
        if inp.get("disk") is not None:
            with open(os.path.join(base, "sequence.json"), "w") as f:
                json.dump({"next-to-send": inp["disk"][0], "received": recv_json(inp["disk"][1])}, f)
        rec = Recorder(base); rec.window_size = inp.get("size", 32); H.rec = rec
        held = os.path.join(base, "lock.held")      # the stub FileLock reports contention when this marker exists
        ctx = None; out = []
        def abandon():
            nonlocal ctx
            if ctx is not None:
                ctx.lockfile = None        # a dead process runs no __del__
                ctx = None
            if os.path.exists(held): os.unlink(held)
        events = inp["events"]
        def ntemps(): return len([f for f in os.listdir(base) if f.startswith(".sequence-")])
        def proc_obs():
            if ctx is None: return None
            w = ctx.recipient_replay_window
            return [ctx.sender_sequence_number, ctx.sequence_number_persisted, ctx.sequence_number_chunksize, bool(ctx.replay_window_persisted),
                    [w._index, w._bitfield] if w.is_initialized() else None]
        rid = {"id": None, "err": None}        # the RequestIdentifiers the last unprotect handed on (and the ReplayErrorWithEcho carrying them)
        def pend_obs():
            r = rid["id"]
            return None if (r is None or ctx is None) else [int.from_bytes(r.partial_iv, "big"), bool(r.can_reuse_nonce)]
        def one_event(idx, ev):
            e = one_event_(idx, ev)
            if ctx is None: rid["id"] = rid["err"] = None
            return e + [pend_obs()]
        def one_event_(idx, ev):
            nonlocal ctx
            op = ev[0]
            if op == "reload":
                H.next_echo = 1000 + idx
                try:
                    c = o.FilesystemSecurityContext(base, sequence_number_chunksize_start=ev[1], sequence_number_chunksize_limit=ev[2])
                except Exception as e:
                    import filelock
                    ob = "busy" if isinstance(e, filelock.Timeout) else ["exn", type(e).__name__]
                else:
                    ctx = c; open(held, "w").close(); rid["id"] = rid["err"] = None
                    ob = ["loaded", c.sender_sequence_number, bool(c.recipient_replay_window.is_initialized())]
            elif ctx is None:
                ob = "noproc"
            elif op == "kill":
                if rec.real_kill is not None:
                    rec.real_kill.write(json.dumps({"killed": True, "rec": rec.export()}) + "\n"); rec.real_kill.flush(); os._exit(18)
                abandon(); ob = "died"
            else:
                fails = op.endswith("_fails")
                if fails: op = op[:-6]
                crash = None if fails else ev[-1]
                rec.begin(crash, ev[-1] if fails else None); rec.partial = None
                try:
                    if op == "respond" and rid["id"] is not None:
                        r = rid["id"]
                        try:
                            if rid["err"] is not None:
                                err, rid["err"] = rid["err"], None
                                prot = err.to_message()                       # the 4.01 + Echo of ReplayErrorWithEcho
                            else:
                                prot, _ = ctx.protect(aiocoap.Message(code=aiocoap.CONTENT, payload=b"r"), request_id=r)
                        except Exception as e: ob = ["exn", type(e).__name__]
                        else:
                            opt = prot.opt.oscore
                            if len(opt) == 0 or (opt[0] & 7) == 0:          # no own Partial IV: encrypted under the request's nonce
                                ob = ["reused", int.from_bytes(r.partial_iv, "big")]
                            else:
                                n = piv_of(prot); rec.issued(n); ob = ["issued", n]
                    elif op in ("protect", "respond"):
                        m = aiocoap.Message(code=aiocoap.GET, uri="coap://example.com/x")
                        try:
                            prot, _ = ctx.protect(m)
                        except Exception as e: ob = ["exn", type(e).__name__]
                        else:
                            n = piv_of(prot); rec.issued(n); ob = ["issued", n]
                    elif op == "seq":
                        nums = []; end = "done"; rec.partial = nums
                        try:
                            for _ in range(ev[1]):
                                try: v = ctx.new_sequence_number()
                                except Exception as e: end = "exn:" + type(e).__name__; break
                                rec.issued(v); nums.append(v)
                        except Crash:
                            ob = self._seq_obs(nums, "died"); raise
                        ob = self._seq_obs(nums, end)
                    elif op == "unprotect":
                        seqno, authentic, echo = ev[1], ev[2], ev[3]
                        cl = client_ctx()
                        m = aiocoap.Message(code=aiocoap.GET, uri="coap://example.com/x")
                        if echo is not None: m.opt.echo = echo.to_bytes(8, "big")
                        cl.sender_sequence_number = seqno
                        prot, _ = cl.protect(m)
                        if not authentic: prot.payload = prot.payload[:-1] + bytes([prot.payload[-1] ^ 1])
                        prot.mtype = aiocoap.CON; prot.mid = 1; prot.token = b""
                        wire = aiocoap.Message.decode(prot.encode(), "peer")
                        rid["id"] = rid["err"] = None
                        try:
                            _, r_id = ctx.unprotect(wire); ob = ["unprot", "Accept"]; rec.accepted.add(seqno); rid["id"] = r_id
                        except o.ReplayErrorWithEcho as e: ob = ["unprot", "RejectEcho"]; rid["id"] = e.request_id; rid["err"] = e
                        except o.ReplayError: ob = ["unprot", "RejectReplay"]
                        except o.ProtectionInvalid: ob = ["unprot", "RejectInvalid"]
                        except Exception as e: ob = ["exn", type(e).__name__]
                    elif op == "stop":
                        ctx._destroy(); ctx = None
                        if os.path.exists(held): os.unlink(held)
                        ob = "stopped"
                    else:
                        raise ValueError("unknown op %r" % (op,))
                except Crash:
                    abandon()
                    if op != "seq": ob = "died"
                finally:
                    rec.end()
            return [ob, rec.state, ntemps()]
        final_proc = [None]
        def lifetime_in_child(idx):
            """run events[idx:] in a forked process until that process is gone; a crash is os._exit at the armed file-system step"""
            r, w = os.pipe()
            pid = os.fork()
            if pid == 0:
                code = 0
                try:
                    os.close(r); pipe = os.fdopen(w, "w"); rec.real_kill = pipe
                    k = idx
                    while k < len(events):
                        entry = one_event(k, events[k])
                        pipe.write(json.dumps({"k": k, "entry": entry, "rec": rec.export(), "alive": ctx is not None}) + "\n"); pipe.flush()
                        k += 1
                        if ctx is None and entry[0] != "busy" and not (isinstance(entry[0], list) and entry[0][0] == "exn"): break
                    pipe.write(json.dumps({"end": True, "proc": proc_obs()}) + "\n"); pipe.flush()
                except BaseException as e:
                    try: pipe.write(json.dumps({"error": "%s: %s" % (type(e).__name__, e)}) + "\n"); pipe.flush()
                    except Exception: pass
                    code = 3
                finally:
                    os._exit(code)          # never return into the parent's code (no cleanup of the scratch directory from here)
            os.close(w)
            with os.fdopen(r) as f: lines = [json.loads(l) for l in f if l.strip()]
            os.waitpid(pid, 0)
            if os.path.exists(held): os.unlink(held)
            k = idx
            for l in lines:
                if "error" in l: raise RuntimeError("child: " + l["error"])
                if "rec" in l: rec.absorb(l["rec"])
                if "entry" in l: out.append(l["entry"]); k = l["k"] + 1
                elif "died" in l or "killed" in l:
                    rec.refresh("death of the process")
                    ob = "died"
                    if events[k][0] == "seq" and "died" in l: ob = self._seq_obs(l["partial"] or [], "died")
                    out.append([ob, rec.state, ntemps(), None]); k += 1
                elif "end" in l: final_proc[0] = l["proc"]
            rec.refresh("end of lifetime")
            return k
        idx = 0
        while idx < len(events):
            if real_kill and events[idx][0] == "reload" and ctx is None:
                idx = lifetime_in_child(idx); continue
            out.append(one_event(idx, events[idx])); idx += 1
        proc = proc_obs() if ctx is not None else final_proc[0]
        res = {"trace": out, "temps": rec.temps(), "lock": os.path.exists(os.path.join(base, "lock")), "durable": rec.durable,
               "proc": proc, "fs_anomalies": rec.anomalies}
        abandon()
        return res

    @staticmethod
    def _seq_obs(nums, end):
        first = nums[0] if nums else -1
        consec = all(v == first + i for i, v in enumerate(nums))
        if consec: return ["seq", first, len(nums), True, end]
        return ["seqlist", nums[:50], len(nums), False, end]

    # ---------------------------------------------------------------- model
    @staticmethod
    def g_seqfile(d):
        if d is None: return "None"
        nxt, recv = d
        r = "RUnknown" if recv == "unknown" else ("(RWin None)" if recv is None else "(RWin (Some (%s, %s)))" % (gz(recv[0]), gz(recv[1])))
        return "(Some {| sf_next := %s; sf_recv := %s |})" % (gz(nxt), r)
    def model(self, stream, inp):
        if stream == "echo_fresh": return None
        if stream == "kernels" and "rw" in inp: return "kwchanged %s %s" % (gbool(inp["rw"]), gbool(inp["fail"]))
        if stream == "kernels":
            t = inp["t"] if inp["t"] is not None else 2 ** 62
            return "kscenario %s %s %s %s %s %s" % (gz(t), gz(inp["ssn"]), gz(inp["persisted"]), gz(inp["chunk"]), gz(inp["limit"]),
                                                   glist(["KNew" if o == "new" else "KPost" for o in inp["ops"]]))
        evs = []
        for idx, ev in enumerate(inp["events"]):
            op = ev[0]
            if op == "reload": evs.append("Reload %s %s %s" % (gz(ev[1]), gz(ev[2]), gz(1000 + idx)))
            elif op == "kill": evs.append("Kill")
            elif op == "protect": evs.append("Protect %s" % gopt(ev[1], gz))
            elif op == "seq": evs.append("Seq %s %s" % (gz(ev[1]), gopt(ev[2], gz)))
            elif op == "stop": evs.append("CleanStop %s" % gopt(ev[1], gz))
            elif op == "unprotect":
                evs.append("Unprotect {| seqno := %s; authentic := %s; echo := %s |} %s" % (gz(ev[1]), gbool(ev[2]), gopt(ev[3], gz), gopt(ev[4], gz)))
            elif op == "respond": evs.append("Respond %s" % gopt(ev[1], gz))
            elif op == "protect_fails": evs.append("ProtectFails %s" % gz(ev[1]))
            elif op == "unprotect_fails":
                evs.append("UnprotectFails {| seqno := %s; authentic := %s; echo := %s |} %s" % (gz(ev[1]), gbool(ev[2]), gopt(ev[3], gz), gz(ev[4])))
            else: raise ValueError(op)
        return "scenario %s %s %s" % (gz(inp.get("size", 32)), self.g_seqfile(inp.get("disk")), glist(evs))

    @staticmethod
    def d_exn(x): return x if isinstance(x, str) else "%s_%s" % (x["c"], "_".join(str(a) for a in x["a"]))
    @staticmethod
    def d_seqfile(x):
        if x == "None": return None
        f = x["a"][0]; r = f["sf_recv"]
        if r == "RUnknown": recv = "unknown"
        else:
            w = r["a"][0]
            recv = ["win", None if w == "None" else list(w["a"][0])]
        return [f["sf_next"], recv]
    def d_obs(self, x):
        if isinstance(x, str): return {"BStopped": "stopped", "BDied": "died", "BNoProc": "noproc", "BBusy": "busy"}[x]
        c, a = x["c"], x["a"]
        if c == "BIssued": return ["issued", a[0]]
        if c == "BSeq":
            e = a[3]
            end = {"SeqDone": "done", "SeqDied": "died"}[e] if isinstance(e, str) else "exn:" + self.d_exn(e["a"][0])
            return ["seq", a[0], a[1], a[2], end]
        if c == "BExn": return ["exn", "OSError" if self.d_exn(a[0]) == "OtherError_28" else self.d_exn(a[0])]
        if c == "BReused": return ["reused", a[0]]
        if c == "BUnprot":
            o = a[0]; return ["unprot", o if isinstance(o, str) else "InternalError:" + self.d_exn(o["a"][0])]
        if c == "BLoaded": return ["loaded", a[0], a[1]]
        raise ValueError("unknown observation %r" % (x,))
    def decode(self, stream, inp, p):
        p = fw.plain(p)
        if stream == "kernels" and "rw" in inp:
            return {"rw": p["a"][0] if p["c"] == "Ok" else "exn:" + self.d_exn(p["a"][0])}
        if stream == "kernels":
            out = []
            for r, st in p:
                if r == "KUnit": v = "unit"
                elif r["c"] == "KVal": v = r["a"][0]
                else: v = "exn:" + self.d_exn(r["a"][0])
                out.append([v, None if st == "None" else list(st["a"][0])])
            return {"calls": out}
        t, (temps, lock, durable), proc = p
        trace = [[self.d_obs(o), self.d_seqfile(s), n, None if pe == "None" else list(pe["a"][0])] for (o, s, n, pe) in t]
        tl = sorted([[self.d_seqfile(x["tmp_content"]), x["tmp_synced"]] for x in temps], key=fw.jdump)
        pr = None
        if proc != "None":
            s, pe, ch, wp, win = proc["a"][0]
            pr = [s, pe, ch, wp, None if win == "None" else list(win["a"][0])]
        return {"trace": trace, "temps": tl, "lock": lock, "durable": durable, "proc": pr, "fs_anomalies": []}

    # ---------------------------------------------------------------- oracle: the property, stated on the implementation's behaviour
    def oracle(self, stream, inp, res):
        if "harness_exception" in res:
            return ("C13:crash:%s:%s" % (res["harness_exception"], res["where"]), "implementation raised %s (%s)" % (res["harness_exception"], res.get("text")))
        if stream == "kernels": return self._kernel_oracle(inp, res)
        if stream == "echo_fresh": return self._echo_oracle(res)
        v = self._walk(inp, res)
        if v is None:
            for a in res.get("fs_anomalies", []):
                kind = a.split(":")[0].split(" ")[0]
                v = ("C13:fs:" + kind, a); break
        if v is None: return None
        # a history in which an injected I/O error came out of _store: the defect fixed in /repo 304561f (rollback), under its own signatures should it return
        failed = [ev[0] for ev, t in zip(inp["events"], res["trace"]) if ev[0].endswith("_fails") and t[0] == ["exn", "OSError"]]
        if failed:
            replay_side = any(k in v[0] for k in ("accept", "replay", "window", "forgery", "reuse-offered", "response-nonce"))
            if replay_side and "unprotect_fails" in failed:
                return ("C13:store-error:window-flag-not-rolled-back", "after OSError out of _store in _replay_window_changed: " + v[1] + " [" + v[0] + "]")
            if not replay_side and "protect_fails" in failed:
                return ("C13:store-error:bound-not-rolled-back", "after OSError out of _store in post_seqnoincrease: " + v[1] + " [" + v[0] + "]")
        return v
    def _echo_oracle(self, res):
        if res.get("lens") != [8] * len(res.get("lens", [])): return ("C13:echo-not-fresh", "echo_recovery values have lengths %r, expected 8 bytes" % (res.get("lens"),))
        if not res.get("distinct"): return ("C13:echo-not-fresh", "two lifetimes of the same directory drew the same echo_recovery value")
        if res.get("trivial"): return ("C13:echo-not-fresh", "echo_recovery is a constant / all-equal-bytes value: %r" % (res["trivial"],))
        if res.get("leaked"): return ("C13:echo-not-fresh", "an echo_recovery value is stored in %r" % (res["leaked"],))
        if not res.get("from_secrets"): return ("C13:echo-not-fresh", "echo_recovery was not drawn from secrets.token_bytes")
        return None
    def _kernel_oracle(self, inp, res):
        """local statement on the two methods: the number returned is the counter before the call, below 2^40-1, and — when the
        counter had not run past the persisted bound and chunk sizes are non-negative — below the bound persisted when it returns"""
        if "rw" in inp:
            if res["rw"] == "exn:OtherError_14":
                return ("C13:kernel:store-before-flag-cleared", "_replay_window_changed called _store while replay_window_persisted was still set: the window, not \"unknown\", is written")
            if res["rw"] is True: return ("C13:kernel:flag-not-cleared", "replay_window_persisted still set after _replay_window_changed")
            if isinstance(res["rw"], str) and res["rw"] != "exn:OtherError_13": return ("C13:kernel:exception:" + res["rw"], "_replay_window_changed raised")
            return None
        prev = [inp["ssn"], inp["persisted"], inp["chunk"], inp["limit"]]
        sane = inp["chunk"] >= 0 and inp["limit"] >= 0
        for i, (op, (r, st)) in enumerate(zip(inp["ops"], res["calls"])):
            if st is None:
                if r not in ("exn:ContextUnavailable", "exn:AssertionError", "exn:OtherError_13"):
                    return ("C13:kernel:exception:" + str(r), "call %d (%s) raised %s" % (i, op, r))
                if r == "exn:ContextUnavailable" and not (op == "new" and prev[0] >= MAX_SEQNO):
                    return ("C13:kernel:refused-early", "call %d refused at counter %d" % (i, prev[0]))
                break
            if op == "new":
                if r != prev[0]: return ("C13:kernel:wrong-number", "call %d returned %r with counter %d" % (i, r, prev[0]))
                if r >= MAX_SEQNO: return ("C13:kernel:exhaustion-not-refused", "call %d returned %d >= 2^40-1" % (i, r))
                if st[0] != r + 1: return ("C13:kernel:counter-not-advanced", "call %d returned %d, counter now %d" % (i, r, st[0]))
                if sane and prev[0] <= prev[1] and not r < st[1]:
                    return ("C13:kernel:issued-beyond-persisted", "call %d returned %d while the persisted bound is %d" % (i, r, st[1]))
            if sane and st[1] < prev[1]: return ("C13:kernel:bound-lowered", "call %d lowered the persisted bound %d -> %d" % (i, prev[1], st[1]))
            prev = st
        return None
    def _walk(self, inp, res):
        size = inp.get("size", 32)
        runs = []                  # (first, last, event index, lifetime) of every consecutive run of numbers handed out
        reused_nonces = {}         # request number -> event at which its nonce was reused for a response
        last_unprot = None         # (number, accepted through the window check?) of the latest unprotect of this lifetime
        life = 0; alive = False; last_in_life = None
        accepted = {}              # number -> lifetime in which it was (last) accepted
        initialised = False; cur_echo = None
        prev_max = -1; cur_max = -1      # highest request number presented in earlier lifetimes / in this one
        soft = None                # first violation of the crash-safety invariant (reported if no actual reuse shows up later in the history)
        echo_fresh = True          # every Echo-carrying request so far was numbered above all requests of earlier lifetimes
        for idx, (ev, (ob, disk, ntemps, pend)) in enumerate(zip(inp["events"], res["trace"])):
            op = ev[0]
            if isinstance(ob, list) and ob[0] == "exn" and ob[1] not in ("ContextUnavailable", "AssertionError") and not (ob[1] == "OSError" and op.endswith("_fails")):
                return ("C13:exception:" + ob[1], "event %d %r raised %s" % (idx, ev, ob[1]))
            if disk == "corrupt": return ("C13:fs:corrupt-sequence-json", "sequence.json unreadable after event %d %r" % (idx, ev))
            if isinstance(ob, list) and ob[0] == "loaded":
                life += 1; alive = True; last_in_life = None; initialised = ob[2]; cur_echo = 1000 + idx; last_unprot = None
                prev_max = max(prev_max, cur_max); cur_max = -1
                bound = disk[0] if disk is not None else 0
                if ob[1] != bound: return ("C13:reload-ignores-disk", "event %d: reloaded at %d but sequence.json says %d" % (idx, ob[1], bound))
                for (f, l, j, lf) in runs:
                    if l >= ob[1]: return ("C13:nonce-reused-after-reload", "event %d: context reloaded at %d although %d was issued in an earlier lifetime (event %d)" % (idx, ob[1], l, j))
                continue
            # numbers handed out by this event
            nums = []
            if isinstance(ob, list) and ob[0] == "issued": nums = [ob[1]]
            elif isinstance(ob, list) and ob[0] == "seq": nums = range(ob[1], ob[1] + ob[2])
            elif isinstance(ob, list) and ob[0] == "seqlist":
                return ("C13:not-increasing-in-lifetime", "event %d: new_sequence_number returned non-consecutive numbers %r" % (idx, ob[1][:12]))
            if len(nums):
                first, last = nums[0], nums[-1]
                if last >= MAX_SEQNO: return ("C13:exhaustion-not-refused", "event %d: sequence number %d >= 2^40-1 was issued" % (idx, last))
                if first < 0: return ("C13:negative-number", "event %d: sequence number %d issued" % (idx, first))
                if last_in_life is not None and first <= last_in_life:
                    return ("C13:not-increasing-in-lifetime", "event %d: %d issued after %d in the same lifetime" % (idx, first, last_in_life))
                for (f, l, j, lf) in runs:
                    if first <= l and f <= last:
                        return ("C13:nonce-reused", "sequence number %d issued at event %d (lifetime %d) and again at event %d (lifetime %d)" % (max(f, first), j, lf, idx, life))
                runs.append((first, last, idx, life))
                last_in_life = last
                if True:
                    if not (isinstance(disk, list) and disk[0] > last):
                        soft = soft or ("C13:issued-beyond-persisted-bound", "event %d: %d issued but sequence.json says %r: a crash now would reissue it" % (idx, last, disk))
            if op == "respond" and isinstance(ob, list) and ob[0] == "reused":
                n = ob[1]
                if last_unprot != (n, True):
                    return ("C13:response-nonce-reused-unverified", "event %d: a response was encrypted under the nonce of request %d, which was not accepted through the window check by the latest unprotect (%r)" % (idx, n, last_unprot))
                if n in reused_nonces and echo_fresh:
                    return ("C13:response-nonce-reused-twice", "event %d: the nonce of request %d was already used for the response at event %d" % (idx, n, reused_nonces[n]))
                reused_nonces[n] = idx
            if op in ("unprotect", "unprotect_fails"):
                n, authentic, echo = ev[1], ev[2], ev[3]
                if ob != "noproc":
                    last_unprot = (n, ob == ["unprot", "Accept"] and initialised)
                    if pend is not None and pend[1] and not (last_unprot[1] and pend[0] == n):
                        return ("C13:reuse-offered-unverified", "event %d: unprotect handed on identifiers with can_reuse_nonce=True for request %d (outcome %r, replay state %s)" % (idx, pend[0], ob, "known" if initialised else "unknown"))
                    if pend is not None and pend[1] and n in reused_nonces and echo_fresh:
                        return ("C13:reuse-offered-twice", "event %d: can_reuse_nonce=True for request %d whose nonce was already used for a response at event %d" % (idx, n, reused_nonces[n]))
                if alive and echo is not None and echo == cur_echo and authentic and n <= prev_max: echo_fresh = False
                if ob == ["unprot", "Accept"]:
                    if not authentic: return ("C13:forgery-accepted", "event %d: forged request %d accepted" % (idx, n))
                    via_echo = (not initialised) and echo is not None and echo == cur_echo
                    if not initialised and not via_echo:
                        return ("C13:accepted-with-unknown-window", "event %d: request %d accepted although the replay state is unknown and it carries no fresh Echo value" % (idx, n))
                    if n in accepted and echo_fresh:
                        if accepted[n] == life: return ("C13:accepted-twice-in-lifetime", "event %d: request %d accepted twice in lifetime %d" % (idx, n, life))
                        if not via_echo:
                            return ("C13:replay-accepted-after-restart", "event %d: request %d, accepted in lifetime %d, was accepted again in lifetime %d without a fresh Echo exchange" % (idx, n, accepted[n], life))
                    if via_echo: initialised = True
                    accepted[n] = life
                    if not (isinstance(disk, list) and (disk[1] == "unknown" or disk[1][1] is None or self._seen(disk[1][1], n))):
                        soft = soft or ("C13:accept-not-reflected-on-disk", "event %d: request %d accepted but sequence.json still says %r: after a crash it would be accepted again" % (idx, n, disk))
                if alive and ob != "noproc": cur_max = max(cur_max, n)
            if ob in ("died", "stopped") or (isinstance(ob, list) and ob[0] in ("seq",) and ob[-1] == "died"):
                alive = False
            # what a reload right now would find: a persisted window must reject everything accepted so far
            if isinstance(disk, list) and echo_fresh and disk[1] != "unknown" and disk[1][1] is not None:
                for m in accepted:
                    if not self._seen(disk[1][1], m):
                        soft = soft or ("C13:persisted-window-misses-accepted", "after event %d %r: request %d was accepted but the window in sequence.json %r would accept it again" % (idx, ev, m, disk[1][1]))
            if disk is None and accepted:
                soft = soft or ("C13:persisted-window-misses-accepted", "after event %d: requests were accepted but there is no sequence.json" % idx)
        return soft
    @staticmethod
    def _seen(win, n):
        i, b = win
        return n < i or bool((b >> (n - i)) & 1)

    def nontrivial(self, stream, inp, res):
        if stream == "kernels" and "rw" in inp: return fw.jdump([stream, inp])
        if stream == "kernels":
            c = res.get("calls", [])
            moved = any(st is not None and st[1] != inp["persisted"] for _, st in c)
            return fw.jdump([stream, inp]) if moved or (c and c[-1][1] is None) else None
        tr = res.get("trace", [])
        lives = sum(1 for t in tr if isinstance(t[0], list) and t[0][0] == "loaded")
        if stream == "echo_fresh": return fw.jdump([stream, inp])
        acted = sum(1 for t in tr if isinstance(t[0], list) and t[0][0] in ("issued", "seq", "unprot", "reused"))
        ends = sum(1 for t in tr if t[0] in ("died", "stopped") or (isinstance(t[0], list) and t[0][-1] == "died"))
        return fw.jdump([stream, inp]) if lives >= 2 and acted >= 2 and ends >= 1 else None

PROPERTY = C13()
