"""C03 — confirmable retransmission: bounded exponential back-off that always terminates.

Correspondence of Model/C03.v with the real Context/TokenManager/MessageManager stack under the virtual loop, of
Gen/c03_constants.v (translated from numbers/constants.py, error.py) with the real TransportTuning / error classes, and
the property oracle on the implementation's wire trace and request outcomes."""
import os, sys, itertools, errno
from fractions import Fraction
import fw
from fw import gz, gbool, glist

RNG_DEN = 1000
DEFAULT_TUNING = [2000000, 3, 2, 4]


def tun_term(t):
    return "{| ACK_TIMEOUT := %s; ARF_num := %s; ARF_den := %s; MAX_RETRANSMIT := %s |}" % tuple(gz(x) for x in t)

EXN_FLAGS = {"ConRetransmitsExceeded": [True, True], "MessageError": [False, True], "AssertionError": [False, False], "NetworkError": [False, True]}


class ScriptedUniform:
    """stand-in for the `random` module inside aiocoap.messagemanager: uniform(lo, hi) = lo + (hi-lo)*n/1000 in whole
    microseconds on the arguments it is called with (and records them)"""
    def __init__(self, mid0, draws, log, loop):
        self.mid0, self.draws, self.log, self.loop = mid0, list(draws), log, loop
    def randint(self, a, b): return self.mid0
    def random(self): return 0.0
    def uniform(self, a, b):
        n = self.draws.pop(0) if self.draws else 0
        lo, hi = to_us(a), to_us(b)
        if not isinstance(lo, int) or not isinstance(hi, int):
            self.log.append(["draw", self.loop.now_us(), str(lo), str(hi), None]); return a
        v = lo + (hi - lo) * n // RNG_DEN
        self.log.append(["draw", self.loop.now_us(), lo, hi, v])
        return v / 1e6


def to_us(x):
    """float seconds -> integer microseconds when it is one (within 1e-3 us), else the exact fraction as text"""
    fr = Fraction(x) * 10**6
    r = round(fr)
    return r if abs(fr - r) < Fraction(1, 1000) else "frac:%s" % fr.limit_denominator(10**9)


class C03(fw.Property):
    id = "C03"
    coq_props = "Props/C03.v"
    gen_jobs = ["c03_constants"]
    model_imports = ["Verif.Gen.c03_constants", "Verif.Model.C03", "Verif.Model.C03const"]
    quick_budget = 420
    thorough_budget = 12000
    design_ref = "DESIGN.md section 8"
    technique = ("Coq proof (invariant + induction over all event lists, arithmetic over all tunings) on an executable model of the "
                 "retransmission slice of MessageManager; differential correspondence against the real stack under a virtual clock; "
                 "TransportTuning formulas and error class table translated from source")
    level_text = ("Theorems (closed under the global context) over an executable model of MessageManager's retransmission slice "
                  "(_add_exchange, _schedule_retransmit, _retransmit, _remove_exchange, _continue_backlog, send_message, the NSTART backlog, the "
                  "token manager's failure paths), for every event list of CON requests with any admissible tuning, empty ACK/RST from any "
                  "remote with any mid, and timer firings: <= 1+MAX_RETRANSMIT identical copies, copy k at T0+t(2^k-1) with t in "
                  "[ACK_TIMEOUT, ACK_TIMEOUT*ACK_RANDOM_FACTOR], give-up with ConRetransmitsExceeded exactly at T0+t(2^(R+1)-1) <= MAX_TRANSMIT_WAIT "
                  "when no matching ACK/RST arrives, no copy after a matching ACK/RST (RST fails the request), foreign ACK/RST inert, defaults and "
                  "derived spans equal to RFC 7252 (formulas translated from constants.py on every run), no internal KeyError/AssertionError; "
                  "round 2: no copy after a transport error (dispatch_error) for the remote, cancellation and separate responses are inert for the "
                  "message layer (documented Examples); round 3: all run-level theorems hold for transports that refuse datagrams synchronously "
                  "(a refusal is dispatch_error in a state satisfying the invariants, code after fixes 11456f9/8d04b7c): a refused first "
                  "transmission / retransmission puts nothing on the wire, ends the exchange, fails the remote's pending requests with "
                  "NetworkError at that instant, and the message is never sent again in any continuation.")
    level_note = ("The model is hand-written and tied to the code by the differential run (full per-event trace and final exchange table, read from the "
                  "real objects). Timers are ideal (fire exactly when due). NON messages, observation, shutdown are outside the model's event "
                  "alphabet (C02/C10/C14/C18). Python computes delays in floats; "
                  "the run uses tunings whose instants are whole microseconds below ~4000 s.")
    rule = ("streams: retransmit = event scripts on the real Context/TokenManager/MessageManager under the virtual loop vs Model/C03.run_trace "
            "(60% focus scenarios: one CON with random/boundary tuning and draw, a disturbance {ACK, RST, wrong-mid ACK/RST, wrong-source ACK/RST, "
            "duplicate ACK, transport error for this / another remote, cancellation, separate NON / CON response, piggy-backed response, "
            "response with wrong token / source, transport starts refusing (then maybe recovers, maybe a new request), refused backlog release, "
            "none} placed at every timer instant k in 0..R+1 with offset -1us / same instant before the callback / same instant "
            "after it / +1us, optionally with background CONs to other remotes and backlogged CONs to the same remote; 40% random event lists); "
            "constants = TransportTuning subclasses vs Gen/c03_constants (translated); error_classes = class ancestry vs translated table. "
            "thorough adds the full product tuning x draw x instant x offset x kind for 9 tunings. Non-trivial = at least one retransmission or "
            "a request failure; distinct by full input.")
    trusted_base = ["hand-written Model/C03.v (validated by the retransmit stream: full per-event output trace + final exchange table)",
                    "translate/jobs/c03.py (validated by the constants / error_classes streams)",
                    "harness/simloop.py ideal timer service, harness/simnet.py fake transport"]
    assumptions = ["timers fire exactly when due (virtual loop); real selector-loop jitter is not modelled",
                   "event alphabet of the model: CON requests, empty ACK/RST, 2.05 responses (piggy-backed / separate CON / NON), transport errors, "
                   "request cancellation, synchronously refusing remotes (all run-level theorems include them)",
                   "only confirmable client REQUESTS are modelled and generated; confirmable responses / notifications of a server site go through the same "
                   "_send_initially/_retransmit code but are not exercised here (audit gap 5, left open); TokenManager.dispatch_error's loop over "
                   "incoming_requests is not modelled (no server site in the stack)"]

    def setup(self):
        import logging
        logging.getLogger("coap").setLevel(logging.CRITICAL)     # RST handling logs a (spurious) warning per case, see notes/C03.md

    # ------------------------------------------------------------------ generators
    TUNINGS = [DEFAULT_TUNING, [2000000, 3, 2, 4], [1000000, 3, 1, 2], [1000000, 1, 1, 0], [500000, 2, 1, 1], [3000000, 5, 4, 3],
               [100000, 17, 10, 5], [2500000, 11, 10, 6], [1, 1, 1, 3], [10, 3, 2, 2], [7000000, 2, 1, 0], [2000000, 1, 1, 4],
               [250000, 7, 5, 7], [30000000, 3, 2, 3], [1000, 1000, 1, 4]]

    def rand_tuning(self, rng):
        if rng.random() < 0.55: return list(rng.choice(self.TUNINGS))
        den = rng.choice([1, 1, 2, 4, 5, 10, 20, 100])
        num = den + rng.randint(0, 3 * den)
        R = rng.choice([0, 1, 2, 3, 4, 5, 6])
        A = den * rng.randint(1, max(1, 40000000 // (den * 2 ** (R + 1) * 4)))
        return [A, num, den, R]

    def schedule(self, T0, tn, n):
        A, num, den, R = tn
        hi = A * num // den
        t = A + (hi - A) * n // RNG_DEN
        return t, [T0 + t * (2 ** k - 1) for k in range(R + 2)]

    def focus_case(self, rng, tn, k, off, kind, extra, mid0=None, n=None):
        """one CON to remote 0; disturbance `kind` placed at instant k of its schedule with offset `off`
        (-1 us, 'pre' = at the instant before the timer callback, 'post' = at the instant after it, +1 us)"""
        mid0 = rng.choice([0, 1, 7, 65534, 65535, rng.randint(0, 65535)]) if mid0 is None else mid0
        n = rng.choice([0, RNG_DEN, RNG_DEN // 2, rng.randint(0, RNG_DEN)]) if n is None else n
        draws = [n] + [rng.randint(0, RNG_DEN) for _ in range(4)]
        evs = []
        T0 = rng.choice([0, 0, 5, 123456])
        if T0: evs.append(["wait", T0])
        mid = mid0
        # background requests to other remotes / backlogged ones to the same remote
        nbg = 0
        for _ in range(extra):
            if rng.random() < 0.5:
                evs.append(["req", 100 + nbg, rng.choice([1, 2]), self.rand_tuning(rng)]); nbg += 1; mid = (mid + 1) & 0xFFFF
        evs.append(["req", 0, 0, tn])
        focus_mid = mid
        for _ in range(extra):
            if rng.random() < 0.4:
                evs.append(["req", 100 + nbg, rng.choice([0, 1, 2]), self.rand_tuning(rng)]); nbg += 1
        t, inst = self.schedule(T0, tn, n)
        R = tn[3]
        m = 3 + 3 * nbg
        def goto(x):
            for _ in range(m): evs.extend([["wait", x], ["firedue"]])
        target = inst[k] if k < len(inst) else inst[-1] + 5
        if off == "-1": goto(target - 2); evs.append(["wait", target - 1])
        elif off == "pre": goto(target - 1); evs.append(["wait", target])
        elif off == "post": goto(target)
        else: goto(target); evs.append(["wait", target + 1])
        if kind == "ack": evs.append(["recv", 0, False, focus_mid])
        elif kind == "rst": evs.append(["recv", 0, True, focus_mid])
        elif kind == "ack_wrong_mid": evs.append(["recv", 0, False, (focus_mid + rng.choice([1, -1, 256, 0x8000])) & 0xFFFF])
        elif kind == "rst_wrong_mid": evs.append(["recv", 0, True, (focus_mid + rng.choice([1, -1, 256])) & 0xFFFF])
        elif kind == "ack_wrong_src": evs.append(["recv", rng.choice([1, 2, 3]), False, focus_mid])
        elif kind == "rst_wrong_src": evs.append(["recv", rng.choice([1, 2, 3]), True, focus_mid])
        elif kind == "dup_ack": evs.extend([["recv", 0, False, focus_mid], ["recv", 0, False, focus_mid], ["recv", 0, True, focus_mid]])
        elif kind == "err": evs.append(["err", 0])
        elif kind == "err_other": evs.append(["err", rng.choice([1, 2, 3])])
        elif kind == "cancel": evs.append(["cancel", 0])
        elif kind == "resp_non": evs.append(["resp", 0, 2, rng.randint(0, 65535), 0])
        elif kind == "resp_con": evs.append(["resp", 0, 1, rng.randint(0, 65535), 0])
        elif kind == "resp_ack": evs.append(["resp", 0, 0, focus_mid, 0])
        elif kind == "resp_wrong": evs.append(["resp", rng.choice([0, 1]), rng.choice([0, 1, 2]), (focus_mid + rng.choice([0, 1])) & 0xFFFF, rng.choice([0, 100, 777])])
        elif kind == "refuse":
            evs.append(["refuse", 0, True])
            if rng.random() < 0.5: evs.extend([["fire"], ["refuse", 0, False]])
            if rng.random() < 0.5: evs.append(["req", 900, 0, self.rand_tuning(rng)])
        elif kind == "refuse_ack": evs.extend([["refuse", 0, True], ["recv", 0, False, focus_mid]])
        # let everything run out
        tail = (R + 3) * (1 + nbg) if nbg <= 2 else R + 3 + 2 * nbg
        if rng.random() < 0.5:
            evs.extend([["fire"]] * min(tail, 24))
        else:
            goto(inst[-1] + 1 + rng.choice([0, 1, 1000]))
            evs.extend([["fire"]] * min(2 * nbg, 8))
        return {"mid0": mid0, "draws": draws, "events": evs}

    KINDS = ["ack", "rst", "ack_wrong_mid", "rst_wrong_mid", "ack_wrong_src", "rst_wrong_src", "none", "dup_ack",
             "err", "err_other", "cancel", "resp_non", "resp_con", "resp_ack", "resp_wrong", "refuse", "refuse_ack"]
    OFFS = ["-1", "pre", "post", "+1"]

    def random_case(self, rng):
        mid0 = rng.choice([0, 65533, 65535, rng.randint(0, 65535)])
        draws = [rng.choice([0, RNG_DEN, rng.randint(0, RNG_DEN)]) for _ in range(6)]
        evs = []; nreq = 0; mids = []; mid = mid0; tnow = 0; refuse_ok = rng.random() < 0.3
        for _ in range(rng.randint(3, 40)):
            x = rng.random()
            if x < 0.18 and nreq < 6:
                r = rng.choice([0, 0, 1, 2]); evs.append(["req", nreq, r, self.rand_tuning(rng)]); nreq += 1
                mids.append((r, mid)); mid = (mid + 1) & 0xFFFF
            elif x < 0.40 and mids:
                r, m = rng.choice(mids)
                y = rng.random()
                if y < 0.5: pass
                elif y < 0.75: m = (m + rng.choice([-1, 1])) & 0xFFFF
                else: r = rng.choice([0, 1, 2, 3])
                evs.append(["recv", r, rng.random() < 0.4, m])
            elif x < 0.44: evs.append(["err", rng.choice([0, 0, 1, 2, 3])])
            elif x < 0.47 and nreq: evs.append(["cancel", rng.randrange(nreq)])
            elif x < 0.52 and mids:
                r, m = rng.choice(mids); evs.append(["resp", r if rng.random() < 0.8 else rng.choice([0, 1, 2]), rng.choice([0, 1, 2]), m if rng.random() < 0.6 else rng.randint(0, 65535), rng.randrange(max(nreq, 1))])
            elif x < 0.535 and refuse_ok: evs.append(["refuse", rng.choice([0, 0, 1, 2]), rng.random() < 0.6])
            elif x < 0.60:
                tnow += rng.choice([1, 1000, 999999, 1000000, 2000000, 3000000, rng.randint(0, 10000000)]); evs.append(["wait", tnow])
            elif x < 0.85: evs.append(["fire"])
            else: evs.append(["firedue"])
        evs.extend([["fire"]] * rng.randint(0, 12))
        return {"mid0": mid0, "draws": draws, "events": evs}

    def gen_cases(self, tier, rng, n):
        yield "error_classes", {"classes": ["ConRetransmitsExceeded", "MessageError", "TimeoutError", "NetworkError", "RequestTimedOut",
                                            "WaitingForClientTimedOut", "ConToMulticast", "LibraryShutdown", "NoRequestInterface"]}
        yield "constants", {"tuning": None}
        for tn in self.TUNINGS: yield "constants", {"tuning": tn}
        n_const = max(10, n // 12)
        for _ in range(n_const): yield "constants", {"tuning": self.rand_tuning(rng)}
        left = n - n_const - len(self.TUNINGS) - 2
        if tier == "thorough":
            # systematic: every instant x offset x kind for a table of tunings (draw at both ends and the middle)
            for tn in self.TUNINGS[:9]:
                for nd in (0, RNG_DEN, 333):
                    for k in range(tn[3] + 2):
                        for off in self.OFFS:
                            for kind in self.KINDS[:7]:
                                left -= 1
                                yield "retransmit", self.focus_case(rng, tn, k, off, kind, 0, mid0=65535 if k % 2 else 9, n=nd)
        for i in range(max(left, 0)):
            x = i % 10
            if x < 6:
                tn = self.rand_tuning(rng)
                k = rng.randint(0, tn[3] + 1) if rng.random() < 0.9 else tn[3] + 2
                yield "retransmit", self.focus_case(rng, tn, k, rng.choice(self.OFFS), rng.choice(self.KINDS), 0 if x < 3 else rng.randint(1, 3))
            else:
                yield "retransmit", self.random_case(rng)

    # ------------------------------------------------------------------ implementation
    def impl(self, stream, inp):
        if stream == "error_classes": return self.impl_classes(inp)
        if stream == "constants": return self.impl_constants(inp)
        return self.impl_retransmit(inp)

    def impl_classes(self, inp):
        from aiocoap import error
        import inspect
        defined = {n for n, c in vars(error).items() if inspect.isclass(c) and c.__module__ == error.__name__}
        out = {}
        for name in inp["classes"]:
            c = getattr(error, name)
            out[name] = sorted({k.__name__ for k in c.__mro__ if k.__name__ in defined})
        return out

    def make_tuning(self, tn):
        from aiocoap.numbers.constants import TransportTuning
        if tn is None: return TransportTuning()
        A, num, den, R = tn
        class T(TransportTuning):
            ACK_TIMEOUT = A / 1e6
            ACK_RANDOM_FACTOR = num / den
            MAX_RETRANSMIT = R
        return T()

    def impl_constants(self, inp):
        t = self.make_tuning(inp["tuning"])
        names = ["ACK_TIMEOUT", "ACK_RANDOM_FACTOR", "MAX_RETRANSMIT", "MAX_TRANSMIT_SPAN", "MAX_TRANSMIT_WAIT", "PROCESSING_DELAY", "MAX_RTT",
                 "EXCHANGE_LIFETIME", "MAX_LATENCY", "EMPTY_ACK_DELAY", "OBSERVATION_RESET_TIME", "NSTART"]
        out = []
        for nme in names:
            v = getattr(t, nme)
            if nme in ("MAX_RETRANSMIT", "OBSERVATION_RESET_TIME", "NSTART"): out.append([nme, v if isinstance(v, int) else repr(v)])
            else: out.append([nme, to_us(v)])
        return out

    def impl_retransmit(self, inp):
        import simloop, simnet
        import aiocoap, aiocoap.messagemanager as mm, aiocoap.tokenmanager as tm
        from aiocoap import Message, GET, PUT, POST, FETCH, error
        loop = simloop.VLoop()
        log = []
        mm.random = ScriptedUniform(inp["mid0"], inp["draws"], log, loop)
        tm.random = simnet.ScriptedRandom(None, 0)
        ctx, tman, mman, mi = simnet.make_stack(loop)
        first_bytes = {}
        reqs = {}; tokens = {}
        nexc = [0]
        def flush_wire():
            for (t, remote, raw) in mi.take():
                try:
                    m = Message.decode(raw, remote)
                    rid = int(m.payload.split(b" ")[0][1:]) if m.payload.startswith(b"r") else None
                    mid, mtype = m.mid, int(m.mtype)
                except Exception:
                    rid, mid, mtype = None, None, None
                if mtype in (2, 3) and raw[1] == 0:          # an empty ACK / RST of ours
                    log.append(["empty", t, mtype == 3, int(remote.name[1:]), mid]); continue
                same = first_bytes.setdefault(rid, raw) == raw
                log.append(["send", t, int(remote.name[1:]), mid, rid if mtype == 0 else ["mtype", mtype, rid], same])
        # FakeMI records at send time but draws are logged at call time: interleave by hooking send
        orig_send = mi.send
        refusing = set()
        def send(m):
            if m.remote.name in refusing:
                # synchronously refusing transport (udp6: sendmsg fails -> error_received -> dispatch_error, all inside send)
                mman.dispatch_error(OSError(errno.ENETUNREACH, "Network is unreachable"), m.remote); return
            orig_send(m); flush_wire()
        mi.send = send
        steps = []
        for ev in inp["events"]:
            del log[:]
            fails = []
            try:
                if ev[0] == "req":
                    _, rid, r, tn = ev
                    kw = {} if (tn == DEFAULT_TUNING and rid % 2 == 0) else {"transport_tuning": self.make_tuning(tn)}
                    # message content varies with the request id (audit gap 6): method, Uri-Path / Uri-Query options, payload size,
                    # and whether the request goes through the blockwise layer; "all copies byte-identical" is checked on the wire
                    code = [GET, PUT, POST, FETCH][rid % 4]
                    filler = [b"", b" x", b" " + bytes(range(256)) + b"y" * 44][(rid // 2) % 3]
                    m = Message(code=code, payload=b"r%d" % rid + filler, **kw)
                    if rid % 3: m.opt.uri_path = ("a", "b%d" % rid)
                    if rid % 5 == 1: m.opt.uri_query = ("k=%d" % rid, "z")
                    m.remote = simnet.Addr("r%d" % r)
                    with loop.enter():
                        req = ctx.request(m, handle_blockwise=(rid % 2 == 1))
                    reqs[rid] = req; tokens[rid] = m
                    def done(f, rid=rid):
                        if f.cancelled(): return
                        e = f.exception()
                        if e is None: done_log.append(["result", loop.now_us(), rid])
                        else: done_log.append(["fail", loop.now_us(), rid, type(e).__name__, isinstance(e, error.TimeoutError), isinstance(e, error.NetworkError)])
                    req.response.add_done_callback(done)
                    loop.drain()
                elif ev[0] == "recv":
                    _, r, is_rst, mid = ev
                    raw = bytes([0x70 if is_rst else 0x60, 0, (mid >> 8) & 0xFF, mid & 0xFF])
                    simnet.inject(loop, mman, raw, simnet.Addr("r%d" % r))
                elif ev[0] == "wait":
                    t = ev[1]; d = loop.next_due()
                    if d is not None: t = min(t, d)
                    loop._now = max(loop._now, t)
                elif ev[0] == "err":
                    with loop.enter(): mman.dispatch_error(OSError(errno.ECONNREFUSED, "Connection refused"), simnet.Addr("r%d" % ev[1]))
                elif ev[0] == "cancel":
                    if ev[1] in reqs:
                        with loop.enter(): reqs[ev[1]].response.cancel()
                elif ev[0] == "resp":
                    _, r, ty, mid, rid = ev
                    token = (tokens[rid].token or b"\xee\xee\xee") if rid in tokens else b"\xee\xee\xee"
                    raw = bytes([0x40 | ({0: 2, 1: 0, 2: 1}[ty] << 4) | len(token), 0x45, (mid >> 8) & 0xFF, mid & 0xFF]) + token + b"\xffok"
                    simnet.inject(loop, mman, raw, simnet.Addr("r%d" % r))
                elif ev[0] == "refuse":
                    (refusing.add if ev[2] else refusing.discard)("r%d" % ev[1])
                elif ev[0] == "fire":
                    loop.fire_next()
                elif ev[0] == "firedue":
                    d = loop.next_due()
                    if d is not None and d <= loop.now_us(): loop.fire_next()
            except Exception as e:
                log.append(["error", loop.now_us(), type(e).__name__])
            loop.drain()
            for c in loop.exceptions[nexc[0]:]:
                e = c.get("exception"); log.append(["error", loop.now_us(), type(e).__name__ if e is not None else str(c.get("message"))])
            nexc[0] = len(loop.exceptions)
            steps.append(canon_step(list(log) + done_log_take()))
        # final exchange table, read from the real objects
        ex = []
        for (remote, mid), (mon, handle) in (mman._active_exchanges or {}).items():
            d = handle._callback.__defaults__           # (self, message, timeout, retransmission_counter, doc, id)
            ex.append([int(remote.name[1:]), mid, round(handle.when() * 10**6), to_us(d[2]), d[3]])
        bl = [[int(r.name[1:]), len(q)] for r, q in mman._backlogs.items()]
        rid_of = {id(q): rid for rid, q in reqs.items()}
        out = []
        for (token, remote), pipe in (tman.outgoing_requests or {}).items():
            rid = int(pipe.request.payload.split(b" ")[0][1:])
            out.append([rid, int(remote.name[1:])])
        timers = len(loop.pending_timers())
        return {"steps": steps, "exchanges": sorted(ex), "backlogs": sorted(bl), "outgoing": sorted(out), "now": loop.now_us(), "timers": timers}

    # ------------------------------------------------------------------ model
    def model(self, stream, inp):
        if stream == "error_classes":
            return glist(["(%s, filter (fun c => existsb (String.eqb c) (map fst error_bases)) (ancestors 12 %s))" % (fw.gstr(c), fw.gstr(c)) for c in inp["classes"]])
        if stream == "constants":
            t = "default_transport_tuning" if inp["tuning"] is None else "(tt_of %s)" % tun_term(inp["tuning"])
            return "derived_us %s" % t
        evs = []
        for ev in inp["events"]:
            if ev[0] == "req": evs.append("ERequest %s %s %s" % (gz(ev[1]), gz(ev[2]), tun_term(ev[3])))
            elif ev[0] == "recv": evs.append("ERecv %s %s %s" % (gz(ev[1]), gbool(ev[2]), gz(ev[3])))
            elif ev[0] == "wait": evs.append("EWaitUntil %s" % gz(ev[1]))
            elif ev[0] == "err": evs.append("EError %s" % gz(ev[1]))
            elif ev[0] == "cancel": evs.append("ECancel %s" % gz(ev[1]))
            elif ev[0] == "resp": evs.append("EResponse %s %s %s %s" % tuple(gz(x) for x in ev[1:]))
            elif ev[0] == "refuse": evs.append("ERefuse %s %s" % (gz(ev[1]), gbool(ev[2])))
            elif ev[0] == "fire": evs.append("EFire")
            else: evs.append("EFireDue")
        return "run_trace %s %s %s" % (gz(inp["mid0"]), glist([gz(d) for d in inp["draws"]]), glist(evs))

    def decode(self, stream, inp, p):
        if stream == "error_classes":
            return {name: sorted(set(anc)) for name, anc in p}
        if stream == "constants":
            names = ["ACK_TIMEOUT", "ACK_RANDOM_FACTOR", "MAX_RETRANSMIT", "MAX_TRANSMIT_SPAN", "MAX_TRANSMIT_WAIT", "PROCESSING_DELAY", "MAX_RTT",
                     "EXCHANGE_LIFETIME", "MAX_LATENCY", "EMPTY_ACK_DELAY", "OBSERVATION_RESET_TIME", "NSTART"]
            out = []
            for nme, (num, den) in zip(names, p):
                if nme in ("MAX_RETRANSMIT", "OBSERVATION_RESET_TIME", "NSTART"): out.append([nme, num])
                else: out.append([nme, num if den == 1 else "frac:%s" % Fraction(num, den)])
            return out
        os_, (ex, bl, outg), now = p
        steps = []
        for o in os_:
            entries = []
            for x in o:
                a = x.args
                if x.name == "ODraw": entries.append(["draw"] + list(a))
                elif x.name == "OSend":
                    m = a[1]; entries.append(["send", a[0], m["m_remote"], m["m_mid"], m["m_rid"], True])
                elif x.name == "OFail":
                    nm = a[2].name; entries.append(["fail", a[0], a[1], nm] + EXN_FLAGS.get(nm, [None, None]))
                elif x.name == "OResult": entries.append(["result", a[0], a[1]])
                elif x.name == "OEmpty": entries.append(["empty"] + list(a))
                else: entries.append(["error", a[0], a[1].name])
            steps.append(canon_step(entries))
        return {"steps": steps, "exchanges": sorted(list(e) for e in ex), "backlogs": sorted(list(b) for b in bl),
                "outgoing": sorted(list(q) for q in outg), "now": now, "timers": len(ex)}

    # ------------------------------------------------------------------ oracle (the property on the implementation's behaviour)
    def oracle(self, stream, inp, res):
        if isinstance(res, dict) and "harness_exception" in res:
            return ("C03:crash:" + res["where"], "implementation raised %s: %s" % (res["harness_exception"], res.get("text")))
        if stream == "error_classes":
            a = res.get("ConRetransmitsExceeded", [])
            if "TimeoutError" not in a or "NetworkError" not in a:
                return ("C03:timeout-wrong-class", "ConRetransmitsExceeded is not a TimeoutError/NetworkError: %s" % a)
            if "NetworkError" not in res.get("MessageError", []): return ("C03:rst-wrong-class", "MessageError is not a NetworkError")
            return None
        if stream == "constants": return self.oracle_constants(inp, res)
        return self.oracle_retransmit(inp, res)

    def oracle_constants(self, inp, res):
        """RFC 7252 section 4.8.2 formulas, in exact rationals, against what the TransportTuning object answers"""
        tn = inp["tuning"] or DEFAULT_TUNING
        A, F, R = Fraction(tn[0]), Fraction(tn[1], tn[2]), tn[3]
        lat = Fraction(100 * 10**6)
        exp = {"ACK_TIMEOUT": A, "ACK_RANDOM_FACTOR": F * 10**6, "MAX_RETRANSMIT": R, "MAX_TRANSMIT_SPAN": A * (2**R - 1) * F,
               "MAX_TRANSMIT_WAIT": A * (2**(R + 1) - 1) * F, "PROCESSING_DELAY": A, "MAX_RTT": 2 * lat + A,
               "EXCHANGE_LIFETIME": A * (2**R - 1) * F + 2 * lat + A, "MAX_LATENCY": lat, "EMPTY_ACK_DELAY": Fraction(100000),
               "OBSERVATION_RESET_TIME": 128, "NSTART": 1}
        for nme, v in res:
            e = exp[nme]
            if isinstance(v, str) and v.startswith("frac:"): v = Fraction(v[5:])
            if not isinstance(v, (int, Fraction)) or Fraction(v) != e:
                return ("C03:derived-constant:" + nme, "%s = %s us for tuning %s, RFC 7252 formula gives %s us" % (nme, v, tn, e))
        if inp["tuning"] is None:
            rfc = {"MAX_TRANSMIT_SPAN": 45, "MAX_TRANSMIT_WAIT": 93, "MAX_RTT": 202, "EXCHANGE_LIFETIME": 247, "PROCESSING_DELAY": 2}
            d = dict(map(tuple, res))
            for k, v in rfc.items():
                if d[k] != v * 10**6: return ("C03:default-constant:" + k, "default %s = %s us, RFC 7252 says %d s" % (k, d[k], v))
        return None

    def oracle_retransmit(self, inp, res):
        """The property, recomputed from the input on the observed trace.  A refused (re)transmission must fail the requests towards
        that remote with NetworkError at that instant and end the exchange (no further copy); `tainted` only annotates messages."""
        tun = {}; remote_of = {}; pending = {}      # pending: request still waiting in the token manager
        info = {}     # rid -> dict(times, mid, t, state)   state in open/acked/reset/timedout/errored
        refusing = set(); tainted = set()
        clock = [0]
        def mindue():
            best = None
            for rid, x in info.items():
                if x["state"] == "open":
                    due = x["times"][0] + x["t"] * (2 ** len(x["times"]) - 1)
                    if best is None or due < best[0]: best = (due, rid)
            return best
        def V(sig, msg, r=None):
            if r is not None and r in tainted: return (sig, "[after a refused retransmission to remote %d] %s" % (r, msg))
            return (sig, msg)
        for ev, step in zip(inp["events"], res["steps"]):
            sends = [e for e in step if e[0] == "send"]; fails = [e for e in step if e[0] == "fail"]
            results = [e for e in step if e[0] == "result"]; errors = [e for e in step if e[0] == "error"]
            if ev[0] == "refuse": (refusing.add if ev[2] else refusing.discard)(ev[1])
            # the oracle's own clock: which timer (if any) fires in this step, by the schedule the property prescribes
            fired = None; md = mindue()
            if ev[0] == "wait": clock[0] = max(clock[0], min(ev[1], md[0]) if md else ev[1])
            elif ev[0] == "fire" and md: clock[0] = max(clock[0], md[0]); fired = md[1]
            elif ev[0] == "firedue" and md and md[0] <= clock[0]: fired = md[1]
            clk_step = clock[0]
            for e in step:
                if e[0] in ("send", "fail", "result", "draw", "empty", "error") and isinstance(e[1], int): clock[0] = max(clock[0], e[1])
            if fired is not None and remote_of[fired] in refusing and len(info[fired]["times"]) < 1 + tun[fired][3]:
                # a retransmission handed to a refusing transport: dispatch_error runs inside send(); the exchange must be gone afterwards
                rr = remote_of[fired]; tainted.add(rr)
                for rid, x in info.items():
                    if remote_of[rid] == rr and x["state"] == "open": x["state"] = "errored"
            if errors:
                nm = str(errors[0][2])
                if nm == "KeyError" and ev[0] in ("recv", "resp") and ev[1] in refusing:
                    return ("C03:internal-exception:KeyError", "KeyError out of _continue_backlog: the release of a backlogged message to remote %d was refused by the transport during %s" % (ev[1], ev))
                if tainted and (ev[0] in ("fire", "firedue") or (len(ev) > 1 and ev[1] in tainted)):
                    return V("C03:internal-exception:" + nm, "exception %s during %s" % (nm, ev), sorted(tainted)[0])
                return ("C03:internal-exception:" + nm, "exception %s escaped during %s" % (nm, ev))
            if ev[0] == "req": tun[ev[1]] = ev[3]; remote_of[ev[1]] = ev[2]; pending[ev[1]] = True
            if ev[0] == "cancel" and ev[1] in pending: pending[ev[1]] = False
            matched = None
            if ev[0] == "recv" or (ev[0] == "resp" and ev[2] == 0):
                mid = ev[3]
                for rid, x in info.items():
                    if x["state"] == "open" and remote_of[rid] == ev[1] and x["mid"] == mid: matched = rid
                if ev[0] == "recv" and matched is None and (fails or [s for s in sends if s[4] in info]):
                    return V("C03:foreign-ack-changed-exchange", "%s matches no outstanding exchange but caused %s" % (ev, step), ev[1])
            # responses: exactly the pending request with that token towards that remote completes
            answered = None
            if ev[0] == "resp" and pending.get(ev[4]) and remote_of.get(ev[4]) == ev[1]: answered = ev[4]
            for e in results:
                if e[2] != answered: return ("C03:spurious-result", "request %s completed with a response during %s" % (e[2], ev))
            if answered is not None:
                if not results: return ("C03:response-not-delivered", "%s did not complete request %d" % (ev, answered))
                pending[answered] = False
            timed_out_remotes = set()
            pending_draw = None
            for e in step:
                if e[0] == "draw": pending_draw = e
                if e[0] != "send": continue
                _, t, r, mid, rid, same = e
                if not isinstance(rid, int) or rid not in tun:
                    return ("C03:unexpected-datagram", "datagram %s is not a copy of a submitted CON" % (e,))
                A, num, den, R = tun[rid]
                if not same: return V("C03:copies-differ", "copy of request %d at %d differs from the first transmission" % (rid, t), r)
                x = info.get(rid)
                if x is None:
                    if pending_draw is None: return ("C03:no-initial-timeout-drawn", "first copy of %d without random.uniform call" % rid)
                    _, dt, lo, hi, v = pending_draw; pending_draw = None
                    if lo != A or not isinstance(hi, int) or hi * den != A * num:
                        return ("C03:draw-range-wrong", "request %d: uniform(%s, %s) us but ACK_TIMEOUT=%d us, factor %d/%d" % (rid, lo, hi, A, num, den))
                    if r != remote_of[rid]: return ("C03:wrong-remote", "request %d sent to %d" % (rid, r))
                    info[rid] = {"times": [t], "mid": mid, "t": v, "state": "open"}
                    continue
                if x["state"] == "acked": return V("C03:copy-after-ack", "request %d retransmitted at %d after its ACK" % (rid, t), r)
                if x["state"] == "reset": return V("C03:copy-after-rst", "request %d retransmitted at %d after its RST" % (rid, t), r)
                if x["state"] == "timedout": return V("C03:copy-after-giveup", "request %d retransmitted at %d after giving up" % (rid, t), r)
                if x["state"] == "errored": return V("C03:copy-after-transport-error", "request %d retransmitted at %d after the transport error that failed it" % (rid, t), r)
                if mid != x["mid"] or r != remote_of[rid]: return V("C03:copies-differ", "copy of %d with other mid/remote" % rid, r)
                if len(x["times"]) >= 1 + R:
                    return V("C03:too-many-copies", "request %d: transmission %d at %d exceeds 1+MAX_RETRANSMIT=%d" % (rid, len(x["times"]) + 1, t, 1 + R), r)
                gap = t - x["times"][-1]
                if len(x["times"]) == 1:
                    if not (A <= gap and gap * den <= A * num):
                        return V("C03:initial-timeout-out-of-range", "request %d: first gap %d us outside [%d, %d*%d/%d]" % (rid, gap, A, A, num, den), r)
                    if gap != x["t"]: return V("C03:initial-timeout-not-the-drawn-one", "request %d: first gap %d, drawn %s" % (rid, gap, x["t"]), r)
                else:
                    prev = x["times"][-1] - x["times"][-2]
                    if gap != 2 * prev: return V("C03:gap-not-doubled", "request %d: gap %d after gap %d" % (rid, gap, prev), r)
                x["times"].append(t)
            if matched is not None:
                x = info[matched]; is_rst = (ev[0] == "recv" and ev[2])
                if [s for s in sends if s[4] == matched]:
                    return V("C03:copy-after-rst" if is_rst else "C03:copy-after-ack", "request %d sent again in the step of its own %s" % (matched, ev), ev[1])
                mine = [f for f in fails if f[2] == matched and f[3] != "NetworkError"]
                if is_rst:
                    if pending.get(matched) and (len(mine) != 1 or mine[0][3] != "MessageError" or not mine[0][5]):
                        return V("C03:rst-did-not-fail-request", "RST for request %d gave %s" % (matched, mine), ev[1])
                    if mine and mine[0][1] != clk_step:
                        return V("C03:rst-failure-at-wrong-time", "RST at %d failed request %d at %d" % (clk_step, matched, mine[0][1]), ev[1])
                    if not pending.get(matched) and mine: return ("C03:spurious-fail", "RST failed request %d which was no longer pending" % matched)
                    x["state"] = "reset"; pending[matched] = False
                else:
                    if mine: return V("C03:ack-failed-request", "ACK for request %d gave %s" % (matched, mine), ev[1])
                    x["state"] = "acked"
                fails = [f for f in fails if not (f[2] == matched and f[3] != "NetworkError")]
            # transport errors: reported asynchronously ("err") or from inside send() of a refusing transport
            net = [f for f in fails if f[3] == "NetworkError"]
            err_remotes = set()
            if ev[0] == "err": err_remotes.add(ev[1])
            if ev[0] == "resp" and ev[2] == 1 and ev[1] in refusing: err_remotes.add(ev[1])     # our empty ACK / RST reply is refused
            for f in net:
                r = remote_of.get(f[2])
                if not f[5]: return ("C03:transport-error-wrong-class", "%s is not a NetworkError" % f[3])
                if r not in refusing and not (ev[0] == "err" and ev[1] == r):
                    return V("C03:spurious-fail", "request %d failed with NetworkError during %s although its remote neither refuses nor reported an error" % (f[2], ev), r)
                if not pending.get(f[2]): return V("C03:spurious-fail", "request %d failed although it was no longer pending" % f[2], r)
                if f[1] != clock[0]: return V("C03:transport-error-failure-at-wrong-time", "request %d failed at %d, the error was reported at %d" % (f[2], f[1], clock[0]), r)
                err_remotes.add(r)
                if ev[0] in ("fire", "firedue"): tainted.add(r)      # a refused retransmission
            for r in err_remotes:
                for rid in list(pending):
                    if remote_of[rid] == r and pending[rid]:
                        if not [f for f in net if f[2] == rid]:
                            return V("C03:transport-error-did-not-fail-request", "request %d towards remote %d still pending after the transport error in %s" % (rid, r, ev), r)
                        pending[rid] = False
                for rid, x in info.items():
                    if remote_of[rid] == r and x["state"] == "open": x["state"] = "errored"
            fails = [f for f in fails if f[3] != "NetworkError"]
            for f in fails:
                _, t, rid, name, is_to, is_net = f
                x = info.get(rid); r = remote_of.get(rid)
                if name != "ConRetransmitsExceeded": return V("C03:spurious-fail", "request %d failed with %s during %s" % (rid, name, ev), r)
                if not (is_to and is_net): return ("C03:timeout-wrong-class", "%s is not a TimeoutError/NetworkError" % name)
                if not pending.get(rid): return V("C03:spurious-fail", "request %d failed although it was no longer pending" % rid, r)
                if x is not None and x["state"] == "open":
                    A, num, den, R = tun[rid]
                    last_gap = (x["times"][-1] - x["times"][-2]) if len(x["times"]) > 1 else None
                    expect = x["times"][-1] + (2 * last_gap if last_gap is not None else x["t"])
                    own = (len(x["times"]) == 1 + R and t == expect)
                    silent = [y for y, z in info.items() if y != rid and remote_of[y] == r and z["state"] == "open" and not pending.get(y)
                              and len(z["times"]) == 1 + tun[y][3] and t == z["times"][0] + z["t"] * (2 ** (tun[y][3] + 1) - 1)]
                    if not own and silent: continue          # collateral of another exchange's give-up (handled below)
                    if len(x["times"]) != 1 + R:
                        return V("C03:gave-up-early", "request %d failed after %d transmissions, MAX_RETRANSMIT=%d" % (rid, len(x["times"]), R), r)
                    if t != expect: return V("C03:timeout-at-wrong-time", "request %d failed at %d, expected %d" % (rid, t, expect), r)
                    if (t - x["times"][0]) * den > A * (2 ** (R + 1) - 1) * num:
                        return ("C03:timeout-after-max-transmit-wait", "request %d failed %d us after first copy" % (rid, t - x["times"][0]))
                    x["state"] = "timedout"; timed_out_remotes.add(r); pending[rid] = False
            for f in fails:      # collateral failures (O5): only together with a give-up towards the same remote
                rid = f[2]; x = info.get(rid); r = remote_of.get(rid)
                if not pending.get(rid): continue
                silent = [y for y, z in info.items() if remote_of[y] == r and z["state"] == "open" and not pending.get(y)
                          and len(z["times"]) == 1 + tun[y][3] and f[1] == z["times"][0] + z["t"] * (2 ** (tun[y][3] + 1) - 1)]
                for y in silent: info[y]["state"] = "timedout"; timed_out_remotes.add(r)
                if r not in timed_out_remotes:
                    return V("C03:spurious-fail", "request %d failed with %s although nothing towards its remote gave up" % (rid, f[3]), r)
                pending[rid] = False
                if x is not None and x["state"] == "open": x["state"] = "timedout"     # its backlogged / own exchange went with the remote's
        # end state: every open exchange still has its timer at the predicted instant; nothing else is pending
        expect = []; optional = []
        for rid, x in info.items():
            if x["state"] == "open":
                k = len(x["times"]); R = tun[rid][3]
                due = x["times"][0] + x["t"] * (2 ** k - 1)
                entry = [remote_of[rid], x["mid"], due, x["t"] * 2 ** (k - 1), k - 1]
                if not pending.get(rid) and k == 1 + R and res["now"] >= due:
                    if res["now"] == due: optional.append(entry)      # a give-up that fails nobody leaves no trace
                    continue
                expect.append(entry)
                if res["now"] > due: return V("C03:missed-retransmission", "request %d: clock %d passed its timer at %d" % (rid, res["now"], due), remote_of[rid])
        got = [e for e in res["exchanges"] if e not in optional]
        if sorted(expect) != got:
            rs = sorted({e[0] for e in got} | {e[0] for e in expect})
            return V("C03:exchange-table-unexpected", "pending exchanges %s, property predicts %s" % (res["exchanges"], sorted(expect)), next((r for r in rs if r in tainted), None))
        if res["timers"] != len(res["exchanges"]):
            return ("C03:stray-timer", "%d loop timers for %d exchanges" % (res["timers"], len(res["exchanges"])))
        return None

    def nontrivial(self, stream, inp, res):
        if stream != "retransmit": return fw.jdump([stream, inp])
        if not isinstance(res, dict) or "steps" not in res: return None
        flat = [e for s in res["steps"] for e in s]
        nsend = sum(1 for e in flat if e[0] == "send")
        ok = nsend >= 2 or any(e[0] == "fail" for e in flat)
        return fw.jdump(inp) if ok else None


done_log = []
def done_log_take():
    x = list(done_log); del done_log[:]; return x

def canon_step(entries):
    """draws and sends in emission order, then request failures by request id, then escaped exceptions"""
    a = [e for e in entries if e[0] in ("draw", "send", "empty")]
    f = sorted([e for e in entries if e[0] in ("fail", "result")], key=lambda e: (e[2], e[1]))
    x = [e for e in entries if e[0] == "error"]
    return a + f + x

PROPERTY = C03()
