"""C07 — observe client: notifications in freshness order, termination signalled once.

Streams
  pipe     the real Request + ClientObservation (+ its async iterator) on a real Pipe, fed with scripted
           Pipe events / application actions under the virtual loop, clock scripted  vs  Model/C07.run
  fresh    the `is_recent` expression as the running code evaluates it (a two-event pipe script)  vs
           Gen/protocol_is_recent.is_recent (translated from the source): boundary table
The oracle re-states the property on the implementation's outputs alone (RFC 7641 section 3.4 rule written
out here once more, independent of the model and of the translated expression)."""
import os, sys, logging, itertools
from fractions import Fraction
import fw
from fw import gz, gbool, glist, gopt

W = 2 ** 24; H = 2 ** 23
SEC = 10 ** 6
DEFAULT_RESET = 128 * SEC

EXN_KINDS = ["NetworkError", "ConRetransmitsExceeded", "LibraryShutdown", "MessageErrorClass", "OSError"]
# python class name <-> Coq exn constructor
EXN_COQ = {"NotObservable": "NotObservable", "ObservationCancelled": "ObservationCancelled", "NetworkError": "NetworkError",
           "ConRetransmitsExceeded": "ConRetransmitsExceeded", "LibraryShutdown": "LibraryShutdown", "MessageError": "MessageError",
           "RuntimeError": "RuntimeError", "AssertionError": "AssertionError", "TypeError": "TypeError", "OSError": "(OtherError 1)",
           "ResourceChanged": "ResourceChanged", "UnexpectedBlock2": "UnexpectedBlock2", "NotImplemented": "NotImplementedError"}
def kind_name(kind): return "MessageError" if kind == "MessageErrorClass" else kind

_log = logging.getLogger("verif-c07"); _log.propagate = False; _log.addHandler(logging.NullHandler()); _log.setLevel(logging.CRITICAL + 1)


class Clock:
    """stand-in for the `time` module inside aiocoap.protocol: exact rational seconds"""
    def __init__(self): self.us = 0
    def time(self): return Fraction(self.us, SEC)


def exn_name(e):
    if e is None: return None
    return e.__name__ if isinstance(e, type) else type(e).__name__


class PipeRig:
    """One Request on one Pipe, with recording observers / iterator consumer."""
    def __init__(self, has_obs, reset_us):
        import aiocoap, aiocoap.protocol as proto
        from aiocoap.pipe import Pipe
        from aiocoap.numbers.constants import TransportTuning
        from simloop import VLoop
        self.aiocoap = aiocoap; self.proto = proto
        self.loop = VLoop(); self.clock = Clock(); proto.time = self.clock
        class Tuning(TransportTuning):
            OBSERVATION_RESET_TIME = Fraction(reset_us, SEC)
        # reset_us < 0: the library's own, unmodified TransportTuning (128 s)
        req = aiocoap.Message(code=aiocoap.GET, transport_tuning=(Tuning() if reset_us >= 0 else TransportTuning()))
        if has_obs: req.opt.observe = 0
        self.out = []
        with self.loop.enter():
            self.pipe = Pipe(req, _log)
            self.request = proto.Request(self.pipe, self.loop, _log)
            self.pipe.on_interest_end(lambda: self.out.append(["end"]))
        self.resp_seen = False; self.consumer = None
    def poll_resp(self):
        f = self.request.response
        if self.resp_seen or not f.done(): return []
        self.resp_seen = True
        if f.cancelled(): return [["resp_cancelled"]]
        e = f.exception()
        if e is not None: return [["resp_exn", exn_name(e)]]
        return [["resp", int(f.result().payload.decode())]]
    def make_exn(self, kind):
        from aiocoap import error
        if kind == "MessageErrorClass": return error.MessageError
        if kind == "OSError": return OSError(113, "no route")
        return getattr(error, kind)("scripted")
    def message(self, ident, observe, code=None):
        a = self.aiocoap
        m = a.Message(code=code or a.CONTENT, payload=str(ident).encode())
        if observe is not None: m.opt.observe = observe
        return m
    def op(self, idx, o):
        """perform one op; returns its canonical output list"""
        self.out = []; kind = o[0]; obs = self.request.observation
        try:
            with self.loop.enter():
                if kind == "msg":
                    self.clock.us = o[3]
                    self.pipe.add_response(self.message(idx, o[1]), is_last=bool(o[2]))
                elif kind == "exn":
                    self.clock.us = o[2]
                    self.pipe.add_exception(self.make_exn(o[1]))
                elif kind == "cancel_obs":
                    if obs is not None: obs.cancel()
                elif kind == "cancel_resp":
                    self.request.response.cancel()
                elif kind == "reg":
                    if obs is not None:
                        k = o[1]
                        obs.register_callback(lambda m, k=k: self.out.append(["cb", k, int(m.payload.decode())]), _suppress_deprecation=True)
                        obs.register_errback(lambda e, k=k: self.out.append(["eb", k, exn_name(e)]), _suppress_deprecation=True)
                elif kind == "iter":
                    if obs is not None and self.consumer is None:
                        self.consumer = self.loop.create_task(self.consume(obs))
        except Exception as e:
            self.out.append(["escaped", type(e).__name__])
        if kind in ("iter", "drain", "cancel_resp"): self.loop.drain()
        return self.poll_resp() + self.out
    async def consume(self, obs):
        try:
            async for m in obs: self.out.append(["it", int(m.payload.decode())])
            self.out.append(["it_stop"])
        except Exception as e:
            self.out.append(["it_exn", type(e).__name__])


class LoopClock:
    """`time` stand-in bound to the virtual loop's clock"""
    def __init__(self, loop): self.loop = loop
    def time(self): return Fraction(self.loop.now_us(), SEC)


class StackRig(PipeRig):
    """The same requester, but created by Context.request on the real TokenManager / MessageManager with a fake
    transport; events are datagrams injected at the message layer."""
    MID0 = 100; TOKEN0 = 7
    def __init__(self, has_obs, reset_us, con, t0):
        import aiocoap, aiocoap.protocol as proto
        from aiocoap.numbers.constants import TransportTuning
        from simloop import VLoop
        import simnet
        self.aiocoap = aiocoap; self.proto = proto; self.simnet = simnet
        self.loop = VLoop(); proto.time = LoopClock(self.loop)
        self.loop.advance(t0)
        simnet.patch_random(None, self.MID0, self.TOKEN0)
        self.ctx, self.tman, self.mman, self.mi = simnet.make_stack(self.loop)
        self.ctx.log = _log; self.tman.log = _log; self.mman.log = _log
        self.remote = simnet.Addr("srv"); self.other = simnet.Addr("other")
        class Tuning(TransportTuning):
            OBSERVATION_RESET_TIME = Fraction(reset_us, SEC)
            reliability = bool(con)
        req = aiocoap.Message(code=aiocoap.GET, transport_tuning=Tuning())
        req.opt.uri_path = ("x",)
        if has_obs: req.opt.observe = 0
        req.remote = self.remote
        self.out = []
        with self.loop.enter():
            self.request = self.ctx.request(req, handle_blockwise=False)
            self.pipe = self.request._pipe
            self.pipe.on_interest_end(lambda: self.out.append(["end"]))
        self.loop.drain()
        # exceptions out of timer / ready callbacks reach the loop's exception handler: they are "escaped" too
        self.loop.call_exception_handler = lambda c: self.out.append(["escaped", type(c.get("exception")).__name__]) if "handle" in c else None
        self.req = req
        sent = self.mi.take()
        assert len(sent) == 1 and req.mid == self.MID0 and req.token == bytes([self.TOKEN0 + 1]), (sent, req.mid, req.token)
        self.resp_seen = False; self.consumer = None
    CODES = None
    def sop(self, idx, o):
        a = self.aiocoap
        kind = o[0]; t = o[-1]
        self.out = []
        if t > self.loop.now_us():
            self.loop.drain()             # canonical: the loop is idle before time passes
            self.loop.advance_to(t)       # timers (retransmissions, giving up) fire here, inside this op; advancing drains
        pre = self.out; self.out = []
        if kind == "app":
            outs = self.op(idx, o[1])
            outs = [x for x in outs if x[0].startswith("resp")] + pre + [x for x in outs if not x[0].startswith("resp")]
            return outs + self.wire(None)
        mid = None
        try:
            if kind == "resp":
                _, mt, observe, token_ok, mid_req, code, _t = o
                m = self.message(idx, observe, code=a.numbers.codes.Code(code))
                m.mtype = getattr(a, mt); mid = m.mid = self.MID0 if mid_req else 1000 + idx
                remote = self.remote
                if token_ok == 1: m.token = self.req.token
                elif token_ok == 0: m.token = self.req.token + b"\x01"
                else: m.token = self.req.token; remote = self.other
                raw = m.encode()
                with self.loop.enter(): self.mman.dispatch_message(a.Message.decode(raw, remote))
            elif kind == "empty":
                _, mt, mid_req, _t = o
                m = a.Message(code=a.EMPTY); m.mtype = getattr(a, mt); mid = m.mid = self.MID0 if mid_req else 1000 + idx
                raw = m.encode()
                with self.loop.enter(): self.mman.dispatch_message(a.Message.decode(raw, self.remote))
            elif kind == "neterr":
                with self.loop.enter(): self.mman.dispatch_error(OSError(113, "no route to host"), self.remote)
        except Exception as e:
            self.out.append(["escaped", type(e).__name__])
        return self.poll_resp() + pre + self.out + self.wire(mid)
    def wire(self, mid):
        a = self.aiocoap; res = []
        for _t, remote, raw in self.mi.take():
            m = a.Message.decode(raw, remote)
            if m.code.is_request(): continue          # retransmission of the request: C03's business
            if m.code == a.EMPTY and m.mid == mid: res.append(["wire", m.mtype.name])
            else: res.append(["wire-other", m.mtype.name, str(m.code), m.mid])
        return res


class BwRig:
    """Context.request(handle_blockwise=True) with Observe on the real TokenManager / MessageManager and a fake transport:
    BlockwiseRequest._run, _run_observation, _complete_by_requesting_block2 drive a lower Request (main token) and follow-up
    Block2 requests (fresh tokens).  Every op is followed by running the loop until idle.
    Block payloads: 16 bytes (szx 0) "%016d" % id for blocks with more=1, 8 bytes "%08d" % id for final ones / plain messages."""
    MID0 = 100; TOKEN0 = 7
    def __init__(self, reset_us, con, t0):
        import aiocoap, aiocoap.protocol as proto
        from aiocoap.numbers.constants import TransportTuning
        from simloop import VLoop
        import simnet
        self.aiocoap = aiocoap; self.proto = proto
        self.loop = VLoop(); proto.time = LoopClock(self.loop)
        self.loop.advance(t0)
        simnet.patch_random(None, self.MID0, self.TOKEN0)
        self.ctx, self.tman, self.mman, self.mi = simnet.make_stack(self.loop)
        self.ctx.log = _log; self.tman.log = _log; self.mman.log = _log
        self.remote = simnet.Addr("srv")
        class Tuning(TransportTuning):
            OBSERVATION_RESET_TIME = Fraction(reset_us, SEC)
            reliability = bool(con)
        req = aiocoap.Message(code=aiocoap.GET, transport_tuning=Tuning())
        req.opt.uri_path = ("x",); req.opt.observe = 0; req.remote = self.remote
        self.out = []
        with self.loop.enter():
            self.request = self.ctx.request(req)          # handle_blockwise=True
            obs = self.request.observation
            obs.register_callback(lambda m: self.out.append(["cb", 0] + self.ident(m)), _suppress_deprecation=True)
            obs.register_errback(lambda e: self.out.append(["eb", 0, exn_name(e)]), _suppress_deprecation=True)
        self.loop.call_exception_handler = lambda c: self.out.append(["escaped", type(c.get("exception")).__name__]) if "handle" in c else None
        self.loop.drain()
        self.resp_seen = False
        self.sub = None                   # (token, mid) of the latest follow-up request
        reqs = self.requests_sent()
        assert len(reqs) == 1, reqs
        self.main_token, self.main_mid = reqs[0][0], reqs[0][1]
    def ident(self, m):
        p = m.payload
        n_full = len(p) // 16; rest = len(p) - 16 * n_full
        first = int(p[:16]) if n_full else int(p[:8])
        return [first, n_full + (1 if rest else 0)]
    def requests_sent(self):
        a = self.aiocoap; res = []; self.replies = []
        for _t, remote, raw in self.mi.take():
            m = a.Message.decode(raw, remote)
            if m.code.is_request(): res.append((m.token, m.mid, m.opt.block2.block_number if m.opt.block2 is not None else None, m.opt.observe))
            else: self.replies.append(m)
        return res
    def poll_resp(self):
        f = self.request.response
        if self.resp_seen or not f.done(): return []
        self.resp_seen = True
        e = f.exception()
        if e is not None: return [["resp_exn", exn_name(e)]]
        return [["resp"] + self.ident(f.result())]
    def bop(self, idx, o):
        a = self.aiocoap; kind = o[0]; t = o[-1]
        self.out = []
        if t > self.loop.now_us(): self.loop.drain(); self.loop.advance_to(t)
        mid = None
        try:
            if kind == "resp":
                # ["resp", mt, observe, block2 (None | [num, more]), etag_ok, code, target ("main" | "sub" | "stale"), t]
                _, mt, observe, b2, etag_ok, code, target, _t = o
                more = bool(b2 and b2[1])
                m = a.Message(code=a.numbers.codes.Code(code), payload=(b"%016d" if more else b"%08d") % idx)
                if b2 is not None and len(b2) > 2 and b2[2] == "short": m.payload = b"%08d" % idx     # more=1 with a short payload
                if observe is not None: m.opt.observe = observe
                if b2 is not None: m.opt.block2 = (b2[0], more, 0)
                m.opt.etag = b"e" if etag_ok else b"x"
                tok, reqmid = (self.main_token, self.main_mid) if target == "main" else (self.sub if self.sub and target == "sub" else (b"\xee\xee", 0))
                m.token = tok; m.mtype = getattr(a, mt); mid = m.mid = reqmid if mt == "ACK" else 1000 + idx
                with self.loop.enter(): self.mman.dispatch_message(a.Message.decode(m.encode(), self.remote))
            elif kind == "neterr":
                with self.loop.enter(): self.mman.dispatch_error(OSError(113, "no route to host"), self.remote)
            elif kind == "drain": pass
        except Exception as e:
            self.out.append(["escaped", type(e).__name__])
        self.loop.drain()
        outs = self.poll_resp() + self.out
        for tok, rmid, num, obsopt in self.requests_sent():
            if tok == self.main_token: continue        # retransmission of the original request
            self.sub = (tok, rmid); outs.append(["req", num])
        for m in self.replies:
            if m.code == a.EMPTY and m.mid == mid: outs.append(["wire", m.mtype.name])
            else: outs.append(["wire-other", m.mtype.name, str(m.code), m.mid])
        return outs
    def run(self, ops):
        outs = [self.bop(i, o) for i, o in enumerate(ops)]
        return {"ops": outs, "tokens_left": len(self.tman.outgoing_requests)}


# ------------------------------------------------------------------------------------------------ RFC 7641 3.4, for the oracle
def rfc_fresh(v1, t1, v2, t2, reset):
    return (v1 < v2 and v2 - v1 < 2 ** 23) or (v1 > v2 and v1 - v2 > 2 ** 23) or (t2 > t1 + reset)


class C07(fw.Property):
    id = "C07"
    coq_props = "Props/C07.v"
    gen_jobs = ["protocol_is_recent"]
    model_imports = ["Verif.Lib.Py", "Verif.Gen.protocol_is_recent", "Verif.Model.C07", "Verif.Model.C07Stack", "Verif.Model.C07Iter", "Verif.Model.C07Blockwise"]
    quick_budget = 180
    thorough_budget = 9000
    design_ref = "DESIGN.md section 12"
    technique = ("Coq proofs (induction over all event lists, order theory on 24-bit serial numbers) over an executable model of Request._run / "
                 "ClientObservation / Pipe, with the freshness expression translated from protocol.py on every run; differential correspondence "
                 "against the real objects under a virtual-time loop with a scripted clock")
    level_text = ("Theorems (closed under the global context) over the freshness expression regenerated from protocol.py on every run and a hand-written "
                  "model of Request._run / ClientObservation / Pipe / TokenManager.process_response: (1) for every list of pipe events and application "
                  "actions, what an observer registered from the start is handed equals the output of a three-phase RFC 7641 client (refinement); hence "
                  "(2) deliveries are a subsequence of the arrivals and exactly the greedy RFC 7641 3.4 freshness filter (pairwise fresh, nothing fresh dropped); "
                  "(3) inside a half-window and within the reset time deliveries strictly increase and end with the maximum, for every permutation/duplication; "
                  "(4) at most one end signal, nothing after it, NotObservable / final response then ObservationCancelled / the transport's exception at every "
                  "position; (5) the end signal ends the pipe's interest, which releases the token, after which notifications get RST (CON) or silence (NON); "
                  "(6) the async iterator yields in-order subsequences ending with the latest — per wake-up and, for a consumer that may be busy, over whole runs; "
                  "(7) without observation.cancel() by the application no exception leaves the pipe (refuted without the hypothesis); "
                  "(8) BlockwiseRequest's observation: silence after the end for every history, exact assembly, and _refuted witnesses for three open findings.")
    level_note = ("Trusted: Coq kernel + vm_compute; translator job c07 (expression shape checked, fail closed); the hand-written models, tied by correspondence "
                  "only (sampled scripts); virtual loop and exact scripted clock (float rounding of time.time() not modelled). BlockwiseRequest._run_observation is modelled for NON requests without the Block1 phase "
                  "(at-most-one end signal there only per run of the observation task: _partial). Not modelled: re-entrant application callbacks, garbage collection of the request, message-layer retransmission timing beyond the "
                  "fixed 62 s give-up of the request, transports other than the token/message manager pair (e.g. OSCORE's is_last logic). The whole-run iterator theorems are about "
                  "the iterator machine; their composition with Request/ClientObservation runs is by construction of deliver_callbacks and by the oracle, not a theorem. A transport failure BEFORE the first response reaches the response future as the exception and the "
                  "observation as NotObservable (carried as such in the theorems). An application that cancels the observation before a final first response makes "
                  "ClientObservation.error raise RuntimeError into the transport (modelled faithfully, outside the property's quantifier; see notes/C07.md).")
    rule = ("streams: fresh = rows (v1, v2, t1, t2, reset) from a boundary table (0, 1, 2^23-1, 2^23, 2^23+1, 2^24-2, 2^24-1 x differences 0,1,2,2^23-1,2^23,2^23+1,2^24-1 x gaps "
            "0/reset-1/reset/reset+1) and random rows, evaluated by the running Request on a two-event pipe script vs the translated is_recent (40 rows per case); "
            "pipe = scripts of Pipe events (responses with/without Observe, is_last consistent or (adversarial) not, exceptions of 5 kinds) and application actions "
            "(late observer registration, start of async iteration, loop drains at 0/30/70/100 %, observation.cancel, response.cancel) on the real Request+ClientObservation "
            "with a scripted clock: serial numbers start at a boundary value, increase by 1..7 (or ~2^23), then are shuffled / swapped / duplicated / offset by 2^23 +- 1, gaps from "
            "{0, 1 us, 1 ms, 1 s, 5 s, 60 s, 127 s, 128 s -1 us, 128 s, 128 s + 1 us, 129 s, 300 s} (other reset values 0, 1 us, 1 s, 1000 s in 15 %), terminating event at a random "
            "position in 70 %, events continue after the end; stack = the same skeletons as CON/NON/ACK datagrams (piggy-backed, separate, un-ACKed request, RST, ICMP error, "
            "wrong token, other remote, request give-up after 62 s) through the real Context/TokenManager/MessageManager with a fake transport under the virtual loop, wire replies "
            "(empty ACK / RST) observed. Non-trivial = observer 0 got >= 1 notification and (some arrival was dropped or an end signal was given) [pipe]; >= 1 notification, a wire "
            "reply and (an RST or an end signal) [stack]; rows with both outcomes [fresh]; bw = Context.request(handle_blockwise=True) with Observe: responses on the observation's token "
            "(Observe or not, Block2 none / 0,more / 0,last / later block) and on the latest follow-up's token (next block, skipped block, other ETag, short payload, not block-wise, unanswered, "
            "transport error) interleaved with further notifications, the final response and errors while a completion is under way; non-trivial [bw] = a body of >= 2 blocks was handed over and "
            "the observation ended; distinct by full input.")
    trusted_base = ["translate/jobs/c07.py + translate/py2v.py expression translator (validated by the `fresh` stream on every run)",
                    "hand-written Model/C07.v (validated by the `pipe` stream)",
                    "harness/simloop.py virtual loop (FIFO ready queue); scripted exact clock bound to aiocoap.protocol.time"]
    assumptions = ["time.time() idealised as an exact rational clock (no float rounding)",
                   "application callbacks do not call back into the observation re-entrantly",
                   "the application does not call observation.cancel() itself before the first response is final (else RuntimeError leaves the pipe: no_exception_leaves_the_pipe has this hypothesis)",
                   "response datagrams are unicast and the context is not shut down (multicast key fallback / is_multicast_locally / dispatch_error after shutdown not modelled)",
                   "the un-ACKed CON request gives up after exactly 62 s (ACK_TIMEOUT drawn at its lower bound by the pinned random source)"]

    def setup(self):
        import aiocoap.protocol as proto
        self._saved_time = proto.time
        # _Iterator.__del__ re-raises unexpected exceptions "so they show up in the finalizer output": keep stderr clean
        self._saved_hook = sys.unraisablehook; sys.unraisablehook = lambda *a: None
    def teardown(self):
        import aiocoap.protocol as proto, gc
        proto.time = self._saved_time
        gc.collect(); sys.unraisablehook = self._saved_hook

    # ------------------------------------------------------------------------------------------ generator
    V_BOUND = [0, 1, 2, H - 2, H - 1, H, H + 1, H + 2, W - 3, W - 2, W - 1]
    GAPS = [0, 0, 1, 1000, SEC, 5 * SEC, 60 * SEC, 127 * SEC, DEFAULT_RESET - 1, DEFAULT_RESET, DEFAULT_RESET + 1, 129 * SEC, 300 * SEC]

    def gen_values(self, rng, v0, adversarial):
        """what the server sends (increasing serial numbers from v0) after the network reordered / duplicated it"""
        n = rng.randint(1, 12)
        step_choices = [1, 1, 1, 2, 3, 7] + ([H - 1, H, H + 1] if rng.random() < 0.3 else [])
        vals = []; v = v0
        for _ in range(n):
            v = (v + rng.choice(step_choices)) % W; vals.append(v)
        mode = rng.random()
        if mode < 0.35: rng.shuffle(vals)
        elif mode < 0.7:
            for _ in range(rng.randint(1, 3)):
                i = rng.randrange(len(vals)); j = min(len(vals) - 1, i + rng.randint(1, 2)); vals[i], vals[j] = vals[j], vals[i]
        for _ in range(rng.randint(0, 3)):
            vals.insert(rng.randrange(len(vals) + 1), rng.choice(vals + [v0]))
        if rng.random() < 0.25:
            vals.insert(rng.randrange(len(vals) + 1), (rng.choice(vals) + rng.choice([H - 1, H, H + 1, W - 1])) % W)
        if adversarial and rng.random() < 0.3:
            vals.insert(rng.randrange(len(vals) + 1), rng.choice([W, W + 1, 2 ** 32, W + H]))
        return vals

    def gen_skeleton(self, rng, adversarial):
        """-> (has_obs, reset, gaps, v0, t0, items) where items is the event/app-op skeleton after the first response:
        ints (notification values), "TERM", or app ops"""
        reset = DEFAULT_RESET if rng.random() < 0.85 else rng.choice([0, 1, SEC, 1000 * SEC])
        gaps = self.GAPS if reset == DEFAULT_RESET else [0, 1, max(0, reset - 1), reset, reset + 1, 2 * reset + 3]
        has_obs = rng.random() < 0.96
        v0 = rng.choice(self.V_BOUND) if rng.random() < 0.7 else rng.randrange(W)
        t0 = rng.choice([0, 5 * SEC, 1700000000 * SEC])
        vals = self.gen_values(rng, v0, adversarial)
        term_at = rng.randrange(len(vals) + 1) if rng.random() < 0.7 else None
        items = []
        for i, x in enumerate(vals):
            if term_at == i: items.append("TERM")
            items.append(x)
        if term_at == len(vals): items.append("TERM")
        extras = []
        if rng.random() < 0.3: extras.append(["reg", 1])
        if rng.random() < 0.5: extras.append(["iter"])
        if rng.random() < (0.25 if adversarial else 0.08): extras.append(["cancel_obs"])
        if rng.random() < 0.04: extras.append(["cancel_resp"])
        early = []
        for e in extras:
            if rng.random() < 0.12: early.append(e)          # before the first response
            else: items.insert(rng.randrange(len(items) + 1), e)
        drain_p = rng.choice([0.0, 0.3, 0.7, 1.0])
        with_drains = []
        for it in items:
            with_drains.append(it)
            if rng.random() < drain_p: with_drains.append(["drain"])
        return has_obs, reset, gaps, v0, t0, early, with_drains

    def gen_pipe(self, rng, adversarial):
        has_obs, reset, gaps, v0, t, early, items = self.gen_skeleton(rng, adversarial)
        ops = [["reg", 0]] + early
        r = rng.random()
        if r < 0.82: ops.append(["msg", v0, 0, t])
        elif r < 0.92: ops.append(["msg", None, 1, t])
        elif r < 0.97: ops.append(["exn", rng.choice(EXN_KINDS), t])
        else: ops.append(["msg", None, 0, t] if adversarial else ["msg", None, 1, t])
        for e in items:
            if isinstance(e, list): ops.append(e); continue
            gap = rng.choice(gaps)
            if adversarial and rng.random() < 0.1: gap = -rng.choice([1, SEC, 200 * SEC])
            t = max(0, t + gap)
            if e == "TERM":
                r = rng.random()
                if r < 0.6: ops.append(["msg", None, 1, t])
                elif r < 0.95: ops.append(["exn", rng.choice(EXN_KINDS), t])
                else: ops.append(["msg", None, 0, t] if adversarial else ["msg", None, 1, t])
            else:
                ops.append(["msg", e, 1 if (adversarial and rng.random() < 0.04) else 0, t])
        ops.append(["drain"])
        return {"has_obs": has_obs, "reset": reset, "ops": ops}

    def gen_stack(self, rng, adversarial):
        has_obs, reset, gaps, v0, t, early, items = self.gen_skeleton(rng, adversarial)
        con = rng.random() < 0.7
        ops = [["app", ["reg", 0], t]] + [["app", e, t] for e in early]
        def tok():
            r = rng.random()
            return 1 if r < (0.85 if adversarial else 0.95) else (0 if r < 0.97 else 2)
        def mt(): return rng.choice(["CON", "NON"])
        first_obs = v0 if rng.random() < 0.88 else None
        first_code = 69 if first_obs is not None or rng.random() < 0.5 else rng.choice([132, 163])
        r = rng.random()
        t += rng.choice([0, 1000, SEC])
        if con and r < 0.5: ops.append(["resp", "ACK", first_obs, 1, True, first_code, t])                  # piggy-backed
        elif con and r < 0.8:
            ops.append(["empty", "ACK", True, t]); t += rng.choice([0, SEC, 70 * SEC])
            ops.append(["resp", mt(), first_obs, 1, False, first_code, t])                                   # separate response
        elif con and r < 0.86: ops.append(["empty", "RST", True, t])                                        # request rejected
        elif r < 0.93 or not adversarial: ops.append(["resp", mt(), first_obs, 1, False, first_code, t])    # response overtakes / NON
        else: ops.append(["neterr", t])
        for e in items:
            if isinstance(e, list): ops.append(["app", e, t]); continue
            t += rng.choice(gaps)
            if e == "TERM":
                r = rng.random()
                if r < 0.6: ops.append(["resp", mt(), None, 1, False, rng.choice([69, 132, 163, 68]), t])
                elif r < 0.9: ops.append(["neterr", t])
                else: ops.append(["empty", "RST", True, t])
            else:
                code = 69 if not (adversarial and rng.random() < 0.05) else 132
                ops.append(["resp", mt(), e, tok(), adversarial and rng.random() < 0.03, code, t])
            if adversarial and rng.random() < 0.05: ops.append(["empty", rng.choice(["ACK", "RST"]), rng.random() < 0.5, t])
            if rng.random() < (0.08 if adversarial else 0.02):          # a Reset that carries a response code and the observation's token
                ops.append(["resp", "RST", rng.choice([None, 5, v0]), 1, rng.random() < 0.3, rng.choice([69, 132]), t])
        ops.append(["app", ["drain"], t])
        return {"has_obs": has_obs, "reset": reset, "con": con, "t0": ops[0][2], "ops": ops}

    def gen_bw(self, rng, adversarial):
        """BlockwiseRequest with Observe: notifications whose Block2 needs completing by follow-up requests, other
        notifications / the final response / errors arriving while a completion is under way"""
        reset = DEFAULT_RESET if rng.random() < 0.9 else rng.choice([0, SEC])
        gaps = [0, 1000, SEC, 5 * SEC, 60 * SEC, DEFAULT_RESET, DEFAULT_RESET + 1] if reset == DEFAULT_RESET else [0, 1, reset, reset + 1]
        v0 = rng.choice(self.V_BOUND) if rng.random() < 0.5 else rng.randrange(W)
        t = t0 = rng.choice([0, 5 * SEC])
        vals = self.gen_values(rng, v0, False)
        ops = []
        def mt(): return rng.choice(["CON", "NON"])
        def chain(first_ok=False):
            """the server's answers to the follow-up requests for a body whose block 0 said more=1"""
            nonlocal t
            out = []; n = 1; r = rng.random()
            if r < 0.08 and not first_ok: return out                      # follow-up never answered
            for _ in range(rng.choice([0, 0, 0, 1, 2])):
                t += rng.choice([0, 1000]); out.append(["resp", "NON", None, [n, 1], 1, 69, "sub", t]); n += 1
            t += rng.choice([0, 1000, SEC])
            f = rng.random()
            if first_ok or f < 0.72: out.append(["resp", mt(), None, [n, 0], 1, 69, "sub", t])
            elif f < 0.80: out.append(["resp", "NON", None, [n, 0], 0, 69, "sub", t])            # ETag differs: ResourceChanged
            elif f < 0.86: out.append(["resp", "NON", None, [n + 1, 0], 1, 69, "sub", t])        # a block was skipped
            elif f < 0.91: out.append(["resp", "NON", None, [n, 1, "short"], 1, 69, "sub", t])   # more=1 with a short payload
            elif f < 0.96: out.append(["resp", "NON", None, None, 1, rng.choice([69, 132]), "sub", t])   # not block-wise at all
            else: out.append(["neterr", t])
            return out
        def interleave(ch, extra):
            """other traffic arrives while the completion is under way"""
            for e in extra: ch.insert(rng.randrange(len(ch) + 1), e)
            return ch
        # first response
        first_obs = v0 if rng.random() < 0.9 else None
        r = rng.random()
        b2 = None if r < 0.6 else ([0, 1] if r < 0.95 or first_obs is None else rng.choice([[1, 0], [1, 1], [0, 0]]))
        t += 1000
        if adversarial and rng.random() < 0.1: ops.append(["neterr", t])
        ops.append(["resp", "NON", first_obs, b2, 1, 69 if first_obs is not None or rng.random() < 0.5 else 132, "main", t])
        pend = chain(first_ok=(first_obs is None)) if b2 == [0, 1] else []
        term_at = rng.randrange(len(vals) + 1) if rng.random() < 0.6 else None
        events = []
        for i, v in enumerate(vals + [None]):
            if term_at == i:
                events.append("TERM")
            if v is not None: events.append(v)
        for e in events:
            # traffic of the previous completion is spread around this arrival
            if pend and rng.random() < 0.5:
                k = rng.randrange(len(pend) + 1); ops.extend(pend[:k]); pend = pend[k:]
            t = max(t, max((o[-1] for o in ops), default=t)) + rng.choice(gaps)
            if e == "TERM":
                r = rng.random()
                if r < 0.7: ops.append(["resp", mt(), None, ([0, 1] if rng.random() < 0.15 else None), 1, rng.choice([69, 132, 163]), "main", t]); nb = ops[-1][3]
                else: ops.append(["neterr", t]); nb = None
            else:
                r = rng.random()
                nb = None if r < 0.6 else ([0, 1] if r < 0.93 else rng.choice([[0, 0], [1, 0], [2, 1]]))
                ops.append(["resp", mt(), e, nb, 1, 69, "main", t])
            ops.extend(pend); pend = []
            if nb == [0, 1]: pend = chain()
            if rng.random() < 0.2: ops.append(["drain", t])
        ops.extend(pend)
        if rng.random() < 0.3:
            t = max(o[-1] for o in ops) + 1000; ops.append(["resp", mt(), None, [1, 0], 1, 69, "sub", t])     # a late / stray final block
        # time must not go backwards
        tt = t0
        for o in ops:
            tt = max(tt, o[-1]); o[-1] = tt
        ops.append(["drain", tt])
        return {"reset": reset, "t0": t0, "ops": ops}

    def fresh_table(self):
        """boundary table for the translated expression: (v1, v2, dt) around 0, 2^23, 2^24 and the reset time"""
        out = []
        vs = [0, 1, H - 1, H, H + 1, W - 2, W - 1]
        dts = [0, DEFAULT_RESET - 1, DEFAULT_RESET, DEFAULT_RESET + 1]
        for v1 in vs:
            for d in [0, 1, 2, H - 1, H, H + 1, W - 1]:
                for sgn in (1, -1):
                    v2 = (v1 + sgn * d) % W
                    for dt in dts: out.append([v1, v2, 7 * SEC, 7 * SEC + dt, DEFAULT_RESET])
        seen = set(); uniq = []
        for x in out:
            if tuple(x) not in seen: seen.add(tuple(x)); uniq.append(x)
        return uniq

    def gen_cases(self, tier, rng, n):
        table = self.fresh_table()
        k = len(table) if tier == "thorough" else 60
        pick = table if tier == "thorough" else rng.sample(table, k)
        # the table is evaluated in chunks: one case = up to 40 rows
        for i in range(0, len(pick), 40):
            yield "fresh", {"rows": pick[i:i + 40]}
        rows = []
        for _ in range(40 if tier == "quick" else 2000):
            v1 = rng.randrange(W); v2 = rng.choice([rng.randrange(W), (v1 + rng.choice([-1, 0, 1, H - 1, H, H + 1, -H, -H - 1, -H + 1])) % W])
            t1 = rng.randrange(0, 2000 * SEC); reset = rng.choice([DEFAULT_RESET, DEFAULT_RESET, 0, SEC])
            t2 = max(0, t1 + rng.choice([0, reset - 1, reset, reset + 1, rng.randrange(-SEC, 400 * SEC)]))
            rows.append([v1, v2, t1, t2, reset])
        for i in range(0, len(rows), 40):
            yield "fresh", {"rows": rows[i:i + 40]}
        # the library's own TransportTuning (no subclass): the 128 s of the property text must come out of numbers/constants.py
        yield "fresh", {"rows": [[v1, v2, 7 * SEC, 7 * SEC + dt, -1] for v1, v2 in ((5, 5), (5, 4), (4, 5), (W - 1, 0), (0, H))
                                 for dt in (0, DEFAULT_RESET - 1, DEFAULT_RESET, DEFAULT_RESET + 1)]}
        d = self.gen_pipe(rng, False); d["reset"] = -1
        yield "pipe", d
        for j in range(n):
            if j % 3 == 0: yield "pipe", self.gen_pipe(rng, adversarial=(j % 15 == 12))
            elif j % 3 == 1: yield "stack", self.gen_stack(rng, adversarial=(j % 15 == 13))
            else: yield "bw", self.gen_bw(rng, adversarial=(j % 15 == 14))
        if tier == "thorough":
            # exhaustive small scope (validation of the tie, not a proof): every sequence of length <= 4 over three consecutive
            # serial numbers (all permutations and duplications), across 0 / 2^23 / wrap-around, gaps 1 s or 129 s,
            # terminating response (final response / transport error) at every position and absent
            for v0 in (0, H - 2, W - 2):
                vals = [(v0 + d) % W for d in (1, 2, 3)]
                for L in range(1, 5):
                    for seq in itertools.product(vals, repeat=L):
                        for term in list(range(L + 1)) + [None]:
                            gap = SEC if (sum(seq) + (term or 0)) % 3 else 129 * SEC
                            ops = [["reg", 0], ["iter"], ["msg", v0, 0, 0]]; t = 0
                            for i, x in enumerate(seq):
                                if term == i: t += SEC; ops.append(["msg", None, 1, t] if (i + L) % 2 else ["exn", "NetworkError", t])
                                t += gap; ops.append(["msg", x, 0, t])
                            if term == L: t += SEC; ops.append(["msg", None, 1, t])
                            ops.append(["drain"])
                            yield "pipe", {"has_obs": True, "reset": DEFAULT_RESET, "ops": ops}

    # ------------------------------------------------------------------------------------------ implementation
    def impl(self, stream, inp):
        if stream == "fresh":
            res = []
            for v1, v2, t1, t2, reset in inp["rows"]:
                rig = PipeRig(True, reset)
                rig.op(0, ["reg", 0]); rig.op(1, ["msg", v1, 0, t1])
                o = rig.op(2, ["msg", v2, 0, t2])
                res.append(o == [["cb", 0, 2]])
            return res
        if stream == "bw":
            return BwRig(inp["reset"], False, inp["t0"]).run(inp["ops"])
        if stream == "stack":
            rig = StackRig(inp["has_obs"], inp["reset"], inp["con"], inp["t0"])
            outs = [rig.sop(i, o) for i, o in enumerate(inp["ops"])]
            return {"ops": outs, "token_left": len(rig.tman.outgoing_requests) > 0}
        rig = PipeRig(inp["has_obs"], inp["reset"])
        return [rig.op(i, o) for i, o in enumerate(inp["ops"])]

    # ------------------------------------------------------------------------------------------ model
    def g_op(self, idx, o):
        k = o[0]
        if k == "msg": return "OpEvent %s (EvMsg %s %s %s)" % (gz(o[3]), gz(idx), gopt(o[1], gz), gbool(o[2]))
        if k == "exn": return "OpEvent %s (EvExn %s)" % (gz(o[2]), EXN_COQ[kind_name(o[1])])
        if k == "cancel_obs": return "OpCancelObs"
        if k == "cancel_resp": return "OpCancelResp"
        if k == "reg": return "OpRegister %s" % gz(o[1])
        if k == "iter": return "OpIter"
        if k == "drain": return "OpDrain"
        raise ValueError(k)
    def model(self, stream, inp):
        if stream == "fresh":
            return glist(["is_recent %s %s %s %s %s" % (gz(row[0]), gz(row[1]), gz(row[2]), gz(row[3]), self.g_reset(row[4])) for row in inp["rows"]])
        if stream == "bw":
            return "brun (bw0 %s %s) %s" % (gz(inp["reset"]), gz(inp["t0"]), glist([self.g_bop(i, o) for i, o in enumerate(inp["ops"])]))
        if stream == "stack":
            return "srun (stack0 %s %s %s %s) %s" % (gbool(inp["has_obs"]), gz(inp["reset"]), gbool(inp["con"]), gz(inp["t0"]),
                                                    glist([self.g_sop(i, o) for i, o in enumerate(inp["ops"])]))
        return "run (sys0 %s %s) %s" % (gbool(inp["has_obs"]), self.g_reset(inp["reset"]), glist([self.g_op(i, o) for i, o in enumerate(inp["ops"])]))
    def g_reset(self, reset):
        """-1 stands for the library's unmodified tuning: the model takes the constant translated from numbers/constants.py"""
        return "(OBSERVATION_RESET_TIME * 1000000)" if reset < 0 else gz(reset)
    def g_blk(self, b2):
        if b2 is None: return "BNone"
        return "(BBlock %s %s %s)" % (gz(b2[0]), gbool(b2[1]), gbool(not (len(b2) > 2 and b2[2] == "short")))
    def g_bop(self, idx, o):
        k = o[0]
        if k == "resp":
            _, mt, observe, b2, etag_ok, code, target, t = o
            if target == "main": return "BMain %s %s %s %s %s" % (gz(t), mt, gz(idx), gopt(observe, gz), self.g_blk(b2))
            return "BSub %s %s %s %s %s" % (gz(t), mt, gz(idx), self.g_blk(b2), gbool(etag_ok))
        if k == "neterr": return "BNetError %s" % gz(o[1])
        if k == "drain": return "BDrain %s" % gz(o[1])
        raise ValueError(k)
    def d_bout(self, x):
        c, a = x["c"], x["a"]
        if c == "BResp": return ["resp", a[0], a[1]]
        if c == "BRespExn": return ["resp_exn", self.d_exn2(a[0])]
        if c == "BCb": return ["cb", 0, a[0], a[1]]
        if c == "BEb": return ["eb", 0, self.d_exn2(a[0])]
        if c == "BReq": return ["req", a[0]]
        if c == "BWire": return ["wire", a[0]]
        raise ValueError(x)
    def g_sop(self, idx, o):
        k = o[0]
        if k == "resp": return "SResponse %s %s %s %s %s %s" % (gz(o[6]), o[1], gz(idx), gopt(o[2], gz), gbool(o[3] == 1), gbool(o[4]))
        if k == "empty": return "SEmpty %s %s %s" % (gz(o[3]), o[1], gbool(o[2]))
        if k == "neterr": return "SNetError %s" % gz(o[1])
        if k == "app": return "SApp %s (%s)" % (gz(o[2]), self.g_op(idx, o[1]))
        raise ValueError(k)
    def d_exn(self, x):
        if isinstance(x, str): return x
        if x["c"] == "OtherError": return "OSError"
        return x["c"]
    def d_exn2(self, x):
        n = self.d_exn(x)
        return "NotImplemented" if n == "NotImplementedError" else n
    def d_out(self, x):
        if x == "OEnd": return ["end"]
        if x == "ORespCancelled": return ["resp_cancelled"]
        if x == "OItStop": return ["it_stop"]
        c, a = x["c"], x["a"]
        if c == "OResp": return ["resp", a[0]]
        if c == "ORespExn": return ["resp_exn", self.d_exn(a[0])]
        if c == "OCb": return ["cb", a[0], a[1]]
        if c == "OEb": return ["eb", a[0], None if a[1] == "None" else self.d_exn(a[1]["a"][0])]
        if c == "OIt": return ["it", a[0]]
        if c == "OItExn": return ["it_exn", self.d_exn(a[0])]
        if c == "OEscaped": return ["escaped", self.d_exn(a[0])]
        raise ValueError(x)
    def decode(self, stream, inp, p):
        p = fw.plain(p)
        if stream == "fresh": return p
        if stream == "bw":
            outs, tok = p
            return {"ops": [[self.d_bout(x) for x in per_op] for per_op in outs], "tokens_left": tok}
        if stream == "stack":
            outs, tok = p
            def so(x):
                if x["c"] == "Wire": return ["wire", x["a"][0]]
                return self.d_out(x["a"][0])
            return {"ops": [[so(x) for x in per_op] for per_op in outs], "token_left": tok}
        return [[self.d_out(x) for x in per_op] for per_op in p]

    # ------------------------------------------------------------------------------------------ oracle
    def oracle(self, stream, inp, res):
        if isinstance(res, dict) and "harness_exception" in res:
            return ("C07:crash:" + res["where"], "implementation raised %s: %s" % (res["harness_exception"], res.get("text")))
        if stream == "fresh":
            for (v1, v2, t1, t2, reset), got in zip(inp["rows"], res):
                if reset < 0: reset = DEFAULT_RESET           # unmodified tuning: the property text's 128 s
                want = rfc_fresh(v1, t1, v2, t2, reset)
                if got != want:
                    return ("C07:stale-delivered" if got else "C07:fresh-dropped",
                            "Observe %d at %d us after accepted %d at %d us (reset %d us): delivered=%s, RFC 7641 3.4 says fresh=%s" % (v2, t2, v1, t1, reset, got, want))
            return None
        # findings that do not stop the evaluation of the rest of the case (reported only if nothing else is wrong with it)
        self._deferred = []
        r = self.oracle_stack(inp, res) if stream == "stack" else (self.oracle_bw(inp, res) if stream == "bw" else self.oracle_pipe(inp, res))
        return r or (self._deferred[0] if self._deferred else None)

    def oracle_bw(self, inp, res):
        """the property on the OUTER observation of a BlockwiseRequest (observer registered from the start)"""
        if "ops" not in res: return ("C07:crash:" + str(res.get("where")), "implementation raised %s: %s" % (res.get("harness_exception"), res.get("text")))
        ops = inp["ops"]; outs_all = res["ops"]; reset = inp["reset"]
        arrived = {}          # id -> op of every response datagram so far
        first_seen = False; v1 = t1 = None; accepted = set()     # RFC 7641 3.4 filter over the main-token arrivals
        lower_live = True     # the main-token exchange can still produce notifications
        ended_at = None; end_kind = None; last_cb = -1
        final_pending = None  # a final response arrived while the outer observation was live: it must be handed over before the end
        first_fetch = False; failed_first_fetch = False; late_ack = 0; any_more = False
        for i, (o, outs) in enumerate(zip(ops, outs_all)):
            esc = [x for x in outs if x[0] == "escaped"]
            if esc: return ("C07:exception-escaped", "%s escaped at op %d %r" % (esc[0][1], i, o))
            cbs = [x for x in outs if x[0] == "cb"]; ebs = [x[2] for x in outs if x[0] == "eb"]
            resp = [x for x in outs if x[0] in ("resp", "resp_exn")]; wire = [x for x in outs if x[0].startswith("wire")]
            if o[0] == "resp":
                arrived[i] = o
                if o[3] is not None and o[3][1]: any_more = True
                if o[6] == "main":
                    if ended_at is not None and o[1] == "CON" and wire == [["wire", "ACK"]]:
                        late_ack += 1
                        if failed_first_fetch:
                            return ("C07:bw-token-leaked-after-failed-first-fetch", "the first response's Block2 completion failed at op %d (observation ended with %s) but notification %d on the observation's token is still acknowledged" % (ended_at, end_kind, i))
                        if late_ack == 1 and end_kind not in ("ObservationCancelled", "NotObservable", "NetworkError"):
                            return ("C07:bw-token-released-late", "observation ended at op %d with %s, yet the next notification (op %d) on its token is acknowledged instead of rejected" % (ended_at, end_kind, i))
                        return ("C07:late-notification-not-rejected", "notification %d acknowledged although the observation ended at op %d" % (i, ended_at))
                    if lower_live:
                        if not first_seen:
                            first_seen = True
                            if o[2] is None: lower_live = False
                            else: v1, t1 = o[2], o[7]
                            if o[3] is not None and o[3][1]: first_fetch = True
                        elif o[2] is None:
                            lower_live = False
                            if ended_at is None: final_pending = i
                        elif rfc_fresh(v1, t1, o[2], o[7], reset):
                            accepted.add(i); v1, t1 = o[2], o[7]
            if o[0] == "neterr": lower_live = False
            if resp and resp[0][0] == "resp": first_fetch = False
            for x in cbs:
                _, _, ident, n = x
                if ended_at is not None: return ("C07:callback-after-end", "outer observation got message %d after its end signal" % ident)
                if ident not in arrived: return ("C07:delivered-not-arrived", "outer observation got unknown message %r" % ident)
                a = arrived[ident]
                if a[6] == "main":
                    if ident <= last_cb: return ("C07:delivered-twice-or-reordered", "message %d delivered after %d" % (ident, last_cb))
                    last_cb = ident
                    if a[2] is not None and ident not in accepted: return ("C07:stale-delivered", "notification %d (Observe %d) was not fresh on arrival but reached the outer observation" % (ident, a[2]))
                    more = a[3] is not None and a[3][1]
                    if (n == 1) == more: return ("C07:bw-wrong-assembly", "message %d (Block2 %r) handed over as %d block(s)" % (ident, a[3], n))
                    if final_pending == ident: final_pending = "delivered"
                elif n != 1 or a[3] is not None: return ("C07:bw-wrong-assembly", "follow-up response %d handed over as a notification of %d blocks" % (ident, n))
            if len(ebs) > 1 or (ebs and ended_at is not None): return ("C07:errback-twice", "outer observation got a second end signal %r at op %d" % (ebs, i))
            if ebs:
                ended_at = i; end_kind = ebs[0]
                if first_fetch and resp and resp[0][0] == "resp_exn" and end_kind not in ("NetworkError",): failed_first_fetch = True
                if end_kind == "ObservationCancelled" and isinstance(final_pending, int):
                    return ("C07:bw-final-response-lost", "final response %d (no Observe option) arrived at op %d while the outer observation was live, but the observation ended at op %d with ObservationCancelled without handing it over" % (final_pending, final_pending, i))
                if o[0] == "neterr" and end_kind != "NetworkError":
                    return ("C07:network-error-not-signalled", "transport error at op %d: outer errback got %r" % (i, end_kind))
        n_eb = sum(1 for outs in outs_all for x in outs if x[0] == "eb")
        if not any_more:
            # no Block2 completion anywhere: the outer observation must behave exactly like the plain one
            if accepted and ended_at is None and max(accepted) != last_cb:
                return ("C07:fresh-dropped", "freshest notification %d never reached the outer observation (last delivered %d)" % (max(accepted), last_cb))
            if not lower_live and first_seen and n_eb != 1: return ("C07:end-not-signalled", "the exchange ended but the outer observation got %d end signals" % n_eb)
            if isinstance(final_pending, int): return ("C07:final-response-not-delivered", "final response %d never handed over" % final_pending)
        if ended_at is not None and res["tokens_left"] != 0:
            if failed_first_fetch: return ("C07:bw-token-leaked-after-failed-first-fetch", "observation ended at op %d (%s) but %d token(s) stay registered" % (ended_at, end_kind, res["tokens_left"]))
            if end_kind not in ("ObservationCancelled", "NotObservable", "NetworkError"):
                return ("C07:bw-token-released-late", "observation ended at op %d with %s but its token is still registered at the end of the run" % (ended_at, end_kind))
            return ("C07:token-leaked", "observation ended at op %d (%s) but %d token(s) stay registered" % (ended_at, end_kind, res["tokens_left"]))
        return None

    def oracle_pipe(self, inp, res):
        ops = inp["ops"]; reset = inp["reset"] if inp["reset"] >= 0 else DEFAULT_RESET
        has_obs = inp["has_obs"]
        user_cancel = None       # index of the first cancel_obs / cancel_resp: the application's own end
        seen_event = False
        for i, o in enumerate(ops):
            if o[0] in ("msg", "exn"): seen_event = True
            # cancelling the response future is a no-op once the first response is in
            if o[0] == "cancel_obs" or (o[0] == "cancel_resp" and not seen_event): user_cancel = i; break
        events = [i for i, o in enumerate(ops) if o[0] in ("msg", "exn")]
        consistent = all((o[2] == 1) == (o[1] is None) for o in ops if o[0] == "msg")
        reg_at = {o[1]: i for i, o in enumerate(ops) if o[0] == "reg"}
        # ---- 1. per observer: callbacks form a subsequence of the arrivals, nothing after the end signal
        for k, at in reg_at.items():
            last_id = -1; ended = False
            for i, outs in enumerate(res):
                for x in outs:
                    if x[0] == "cb" and x[1] == k:
                        ident = x[2]
                        if ended: return ("C07:callback-after-end", "observer %d got message %d after its errback" % (k, ident))
                        if i < at: return ("C07:delivered-before-registration", "observer %d" % k)
                        replay = (i == at)
                        if not (0 <= ident < len(ops)) or ops[ident][0] != "msg": return ("C07:delivered-not-arrived", "observer %d got unknown message %r" % (k, ident))
                        if not replay and ident != i: return ("C07:delivered-out-of-step", "observer %d got message %d during op %d" % (k, ident, i))
                        if ident < last_id or (ident == last_id and not (replay)): return ("C07:delivered-twice-or-reordered", "observer %d got message %d after %d" % (k, ident, last_id))
                        if ident == last_id and replay: return ("C07:delivered-twice-or-reordered", "observer %d replay of %d twice" % (k, ident))
                        last_id = ident
                    if x[0] == "eb" and x[1] == k:
                        if ended: return ("C07:errback-twice", "observer %d got a second end signal %r" % (k, x[2]))
                        ended = True
        if not has_obs:
            if any(x[0] in ("cb", "eb", "it", "it_stop", "it_exn") for outs in res for x in outs):
                return ("C07:observation-without-observe", "request without Observe option produced observation output")
            return None
        # ---- 2./3. observer 0 is registered before the first event: replay the RFC rule over what it saw
        flat = [(i, x) for i, outs in enumerate(res) for x in outs]
        if any(x[0] == "escaped" for _, x in flat) and user_cancel is None:
            i, x = [(i, x) for i, x in flat if x[0] == "escaped"][0]
            return ("C07:exception-escaped", "%s escaped from the pipe at op %d %r" % (x[1], i, ops[i]))
        live_until = user_cancel if user_cancel is not None else len(ops)
        state = "first"; v1 = t1 = None; last_delivered = None; end_seen = None
        for i in range(len(ops)):
            o = ops[i]; outs = res[i]
            cbs = [x[2] for x in outs if x[0] == "cb" and x[1] == 0]
            ebs = [x[2] for x in outs if x[0] == "eb" and x[1] == 0]
            if i >= live_until:
                if i > live_until and (cbs or ebs) : return ("C07:delivered-after-cancel", "observer 0 got %r/%r after the application cancelled" % (cbs, ebs))
                continue
            if o[0] not in ("msg", "exn"):
                if (cbs or ebs) and i != reg_at.get(0): return ("C07:spurious-delivery", "op %d %r delivered %r %r" % (i, o, cbs, ebs))
                continue
            if state == "ended":
                if cbs or ebs or any(x[0] in ("resp", "resp_exn") for x in outs):
                    return ("C07:delivered-after-end", "event %d %r after the end produced %r" % (i, o, outs))
                continue
            if state == "first":
                want_resp = ["resp", i] if o[0] == "msg" else ["resp_exn", kind_name(o[1])]
                if want_resp not in outs: return ("C07:first-response-lost", "first event %r did not complete the response future: %r" % (o, outs))
                if cbs: return ("C07:first-response-as-notification", "first response delivered as notification")
                if o[0] == "msg" and o[1] is not None and not o[2]:
                    if ebs: return ("C07:spurious-end", "observable first response ended the observation with %r" % ebs)
                    state = "observing"; v1, t1 = o[1], o[3]; continue
                if o[0] == "msg" and not o[2]:
                    # first response without Observe although the pipe announced more: inconsistent pipe, no claim
                    state = "ended"; end_seen = i; continue
                if o[0] == "exn":
                    # the property text: the observation ends "with a network error on transport failure"
                    if ebs == ["NotObservable"]:
                        self._deferred.append(("C07:first-failure-signalled-as-not-observable", "the request failed with %s before any response: request.response got the exception, but the observation was told NotObservable" % o[1]))
                    elif ebs != [kind_name(o[1])]: return ("C07:wrong-end-signal", "request failed with %s: errback got %r" % (o[1], ebs))
                elif ebs != ["NotObservable"]: return ("C07:wrong-end-signal", "first response %r without Observe: errback got %r, expected NotObservable" % (o, ebs))
                state = "ended"; end_seen = i; continue
            # observing
            if o[0] == "exn":
                if cbs: return ("C07:spurious-delivery", "exception event delivered %r" % cbs)
                if ebs != [kind_name(o[1])]: return ("C07:network-error-not-signalled", "transport failure %s: errback got %r" % (o[1], ebs))
                state = "ended"; end_seen = i; continue
            if o[1] is None:
                seq = [x for x in outs if x[0] in ("cb", "eb") and x[1] == 0]
                if seq != [["cb", 0, i], ["eb", 0, "ObservationCancelled"]]:
                    return ("C07:final-response-not-delivered" if ["cb", 0, i] not in seq else "C07:wrong-end-signal",
                            "response %d without Observe: observer 0 saw %r, expected the response then ObservationCancelled" % (i, seq))
                state = "ended"; end_seen = i; continue
            fresh = rfc_fresh(v1, t1, o[1], o[3], reset)
            if fresh and cbs != [i]: return ("C07:fresh-dropped", "notification %d (Observe %d at %d us) is fresh after (%d at %d us) but was not delivered" % (i, o[1], o[3], v1, t1))
            if not fresh and cbs: return ("C07:stale-delivered", "notification %d (Observe %d at %d us) is not fresh after (%d at %d us) but was delivered" % (i, o[1], o[3], v1, t1))
            if fresh: v1, t1 = o[1], o[3]; last_delivered = i
            if o[2]:
                if ebs != ["ObservationCancelled"]: return ("C07:wrong-end-signal", "last event with Observe: errback got %r" % ebs)
                state = "ended"; end_seen = i
            elif ebs: return ("C07:spurious-end", "notification %d ended the observation with %r" % (i, ebs))
        # ---- 4. the pipe's interest ends exactly when the observation has ended (that is what frees the token)
        ends = [i for i, x in flat if x == ["end"]]
        if len(ends) > 1: return ("C07:interest-ended-twice", "on_interest_end ran at ops %r" % ends)
        if end_seen is not None and user_cancel is None and ends != [end_seen]:
            return ("C07:interest-not-released", "observation ended at op %d but the pipe's interest ended at %r" % (end_seen, ends))
        if end_seen is None and user_cancel is None and ends and consistent:
            return ("C07:interest-lost", "pipe interest ended at op %r without the observation having ended" % ends)
        # ---- 5. the async iterator: lossy, in order, ends with the latest once drained
        it_at = next((i for i, o in enumerate(ops) if o[0] == "iter"), None)
        if it_at is not None and user_cancel is None:
            return self.check_iterator(res, it_at, ops[-1][0] == "drain")
        return None

    def check_iterator(self, res, it_at, final_drain):
        """the iterator against what observer 0 (registered from the start) was handed: a subsequence, in order,
        starting with a replay of the latest (or of the end signal), ending with the latest after a final drain"""
        eb_idx = next((i for i, outs in enumerate(res) for x in outs if x[0] == "eb" and x[1] == 0), None)
        pushed = []; latest = None
        for i, outs in enumerate(res):
            if i == it_at:
                if eb_idx is not None and eb_idx <= it_at:
                    pushed.append(("e", [x[2] for x in res[eb_idx] if x[0] == "eb" and x[1] == 0][0]))
                else:
                    for x in outs:       # (deliveries inside the very op that starts the iteration precede its start)
                        if x[0] == "cb" and x[1] == 0: latest = x[2]
                    if latest is not None: pushed.append(("m", latest))
                continue
            for x in outs:
                if x[0] == "cb" and x[1] == 0:
                    latest = x[2]
                    if i > it_at: pushed.append(("m", x[2]))
                if x[0] == "eb" and x[1] == 0 and i > it_at: pushed.append(("e", x[2]))
        got = []
        for i, outs in enumerate(res):
            for x in outs:
                if x[0] == "it": got.append(("m", x[1]))
                if x[0] == "it_stop": got.append(("stop", None))
                if x[0] == "it_exn": got.append(("e", x[1]))
        def norm(p):
            if p[0] == "e" and p[1] in ("NotObservable", "ObservationCancelled"): return ("stop", None)
            return p
        want = [norm(p) for p in pushed]
        j = 0
        for g in got:
            while j < len(want) and want[j] != g: j += 1
            if j == len(want): return ("C07:iterator-not-subsequence", "iterator yielded %r, observer 0 was handed %r" % (got, want))
            j += 1
        # the response that ended the observation (handed to observer 0 right before ObservationCancelled, in the same op,
        # after the iteration had started) must be yielded before the iteration stops: "the final response followed by a
        # cancellation signal" holds on the iterator interface too
        if eb_idx is not None and eb_idx > it_at and ("stop", None) in got:
            seq = [x for x in res[eb_idx] if x[0] in ("cb", "eb") and x[1] == 0]
            if len(seq) >= 2 and seq[-1] == ["eb", 0, "ObservationCancelled"] and seq[-2][0] == "cb" and ("m", seq[-2][2]) not in got:
                return ("C07:iter-final-response-lost", "response %d ended the observation (observer 0 got it, then ObservationCancelled) but the async iterator "
                        "stopped without yielding it: yielded %r" % (seq[-2][2], got))
        if final_drain and want and (not got or got[-1] != want[-1]):
            return ("C07:iterator-missed-latest", "after the final drain the iterator's last item is %r, the latest handed over is %r" % (got[-1:], want[-1]))
        return None

    def oracle_stack(self, inp, res):
        if "ops" not in res: return ("C07:crash:" + str(res.get("where")), "implementation raised %s: %s" % (res.get("harness_exception"), res.get("text")))
        ops = inp["ops"]; outs_all = res["ops"]; reset = inp["reset"]; con = inp["con"]; t0 = inp["t0"]
        if not inp["has_obs"]:
            if any(x[0] in ("cb", "eb", "it", "it_stop", "it_exn") for outs in outs_all for x in outs):
                return ("C07:observation-without-observe", "request without Observe option produced observation output")
            return None
        user_cancel = None; seen_event = False
        for i, o in enumerate(ops):
            if o[0] != "app": seen_event = True
            elif o[1][0] == "cancel_obs" or (o[1][0] == "cancel_resp" and not seen_event): user_cancel = i; break
        phase = "first"; v1 = t1 = None; exchange_open = con
        for i, (o, outs) in enumerate(zip(ops, outs_all)):
            t = o[-1]
            if o[0] == "resp" and o[1] == "RST": o = ["empty", "RST", o[4], o[6]]     # a Reset with a code is only a Reset
            if user_cancel is not None and i >= user_cancel:
                if i > user_cancel and any(x[0] in ("cb", "eb") and x[1] == 0 for x in outs):
                    return ("C07:delivered-after-cancel", "observer 0 got %r after the application cancelled" % (outs,))
                continue
            esc = [x for x in outs if x[0] == "escaped"]
            if esc: return ("C07:exception-escaped", "%s escaped from the message layer at op %d %r" % (esc[0][1], i, o))
            outs = list(outs)
            # the request's own retransmissions running out is a transport failure that can surface at any later op
            to = ["resp_exn", "ConRetransmitsExceeded"] if phase == "first" else ["eb", 0, "ConRetransmitsExceeded"]
            if to in outs:
                if not (exchange_open and t >= t0 + 62 * SEC): return ("C07:spurious-timeout", "ConRetransmitsExceeded at op %d although the request was acknowledged or 62 s have not passed" % i)
                if phase == "first":
                    if ["eb", 0, "NotObservable"] in outs: self._deferred.append(("C07:first-failure-signalled-as-not-observable", "the request timed out (ConRetransmitsExceeded) before any response, but the observation was told NotObservable"))
                    elif ["eb", 0, "ConRetransmitsExceeded"] not in outs: return ("C07:wrong-end-signal", "request timed out but observer 0 got no end signal: %r" % outs)
                outs = [x for x in outs if x != to and x != ["eb", 0, "NotObservable"] and x != ["eb", 0, "ConRetransmitsExceeded"]]
                phase = "ended"; exchange_open = False
            cbs = [x[2] for x in outs if x[0] == "cb" and x[1] == 0]
            ebs = [x[2] for x in outs if x[0] == "eb" and x[1] == 0]
            resp = [x for x in outs if x[0] in ("resp", "resp_exn")]
            wire = [x for x in outs if x[0].startswith("wire")]
            if o[0] == "app":
                if (cbs or ebs) and o[1] != ["reg", 0]: return ("C07:spurious-delivery", "op %d %r delivered %r %r" % (i, o, cbs, ebs))
                continue
            def expect_end(first_kind, later_kind, what):
                nonlocal phase
                if phase == "first":
                    if resp != [["resp_exn", first_kind]] or ebs not in (["NotObservable"], [first_kind]) or cbs:
                        return ("C07:network-error-not-signalled", "%s before the first response: response future %r, observer 0 %r" % (what, resp, ebs))
                    if ebs == ["NotObservable"]:
                        self._deferred.append(("C07:first-failure-signalled-as-not-observable", "%s before the first response: request.response got %s, but the observation was told NotObservable" % (what, first_kind)))
                elif phase == "observing":
                    if ebs != [later_kind] or cbs: return ("C07:network-error-not-signalled", "%s: observer 0 got %r %r" % (what, cbs, ebs))
                elif cbs or ebs or resp: return ("C07:delivered-after-end", "%s after the end produced %r" % (what, outs))
                phase = "ended"; return None
            if o[0] == "neterr":
                r = expect_end("NetworkError", "NetworkError", "transport error"); exchange_open = False
                if r: return r
                continue
            if o[0] == "empty":
                if o[2] and exchange_open:
                    exchange_open = False
                    if o[1] == "RST":
                        r = expect_end("MessageError", "MessageError", "Reset of the request")
                        if r: return r
                        continue
                if cbs or ebs or resp or wire: return ("C07:spurious-delivery", "empty %s produced %r" % (o[1], outs))
                continue
            # a response datagram
            _, mt, observe, token_ok, mid_req, code, _t = o
            if mt == "ACK" and mid_req: exchange_open = False
            if token_ok != 1 or phase == "ended":
                if cbs or ebs or resp: return ("C07:delivered-after-end" if token_ok == 1 else "C07:foreign-response-accepted", "response %d %r produced %r" % (i, o, outs))
                want = [["wire", "RST"]] if mt == "CON" else []
                if wire != want:
                    return ("C07:late-notification-not-rejected" if token_ok == 1 else "C07:foreign-response-accepted",
                            "response %d (%s, token ok=%s, observation over=%s): wire %r, expected %r" % (i, mt, token_ok, phase == "ended", wire, want))
                continue
            want = [["wire", "ACK"]] if mt == "CON" else []
            if wire != want: return ("C07:notification-not-acked", "matched %s response %d: wire %r, expected %r" % (mt, i, wire, want))
            if phase == "first":
                if resp != [["resp", i]]: return ("C07:first-response-lost", "first response %d did not complete the response future: %r" % (i, outs))
                if cbs: return ("C07:first-response-as-notification", "first response delivered as notification")
                if observe is None:
                    if ebs != ["NotObservable"]: return ("C07:wrong-end-signal", "first response without Observe: errback got %r, expected NotObservable" % ebs)
                    phase = "ended"
                else:
                    if ebs: return ("C07:spurious-end", "observable first response ended the observation with %r" % ebs)
                    phase = "observing"; v1, t1 = observe, t
                continue
            if resp: return ("C07:response-set-twice", "notification %d touched the response future: %r" % (i, resp))
            if observe is None:
                seq = [x for x in outs if x[0] in ("cb", "eb") and x[1] == 0]
                if seq != [["cb", 0, i], ["eb", 0, "ObservationCancelled"]]:
                    return ("C07:final-response-not-delivered" if ["cb", 0, i] not in seq else "C07:wrong-end-signal",
                            "response %d without Observe: observer 0 saw %r, expected the response then ObservationCancelled" % (i, seq))
                phase = "ended"; continue
            fresh = rfc_fresh(v1, t1, observe, t, reset)
            if fresh and cbs != [i]: return ("C07:fresh-dropped", "notification %d (Observe %d at %d us) is fresh after (%d at %d us) but was not delivered" % (i, observe, t, v1, t1))
            if not fresh and cbs: return ("C07:stale-delivered", "notification %d (Observe %d at %d us) is not fresh after (%d at %d us) but was delivered" % (i, observe, t, v1, t1))
            if ebs: return ("C07:spurious-end", "notification %d ended the observation with %r" % (i, ebs))
            if fresh: v1, t1 = observe, t
        if user_cancel is None:
            if res["token_left"] != (phase != "ended"):
                return ("C07:token-leaked" if res["token_left"] else "C07:token-dropped",
                        "token registered at the end: %s, observation %s" % (res["token_left"], phase))
            ends = [i for i, outs in enumerate(outs_all) for x in outs if x == ["end"]]
            if len(ends) > 1: return ("C07:interest-ended-twice", "on_interest_end ran at ops %r" % ends)
            n_eb = sum(1 for outs in outs_all for x in outs if x[0] == "eb" and x[1] == 0)
            if n_eb > 1: return ("C07:errback-twice", "observer 0 got %d end signals" % n_eb)
            if (phase == "ended") != (n_eb == 1): return ("C07:end-not-signalled", "observation %s but observer 0 got %d end signals" % (phase, n_eb))
            it_at = next((i for i, o in enumerate(ops) if o[0] == "app" and o[1][0] == "iter"), None)
            if it_at is not None: return self.check_iterator(outs_all, it_at, True)
        return None

    def nontrivial(self, stream, inp, res):
        if stream == "fresh":
            return fw.jdump(inp) if isinstance(res, list) and any(res) and not all(res) else None
        if stream == "bw":
            if not isinstance(res, dict) or "ops" not in res: return None
            flat = [x for outs in res["ops"] for x in outs]
            if any(x[0] == "cb" and x[3] >= 2 for x in flat) and any(x[0] == "eb" for x in flat): return fw.jdump(inp)
            return None
        if stream == "stack":
            if not isinstance(res, dict) or "ops" not in res: return None
            flat = [x for outs in res["ops"] for x in outs]
            n_cb = sum(1 for x in flat if x[0] == "cb" and x[1] == 0)
            if n_cb >= 1 and any(x[0] == "wire" for x in flat) and (["wire", "RST"] in flat or any(x[0] == "eb" for x in flat)): return fw.jdump(inp)
            return None
        if not isinstance(res, list): return None
        flat = [x for outs in res for x in outs]
        n_notif = sum(1 for o in inp["ops"] if o[0] == "msg" and o[1] is not None) - 1
        n_cb = sum(1 for x in flat if x[0] == "cb" and x[1] == 0)
        if n_cb >= 1 and (n_cb < n_notif or any(x[0] == "eb" for x in flat)): return fw.jdump(inp)
        return None

PROPERTY = C07()
