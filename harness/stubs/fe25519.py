"""empty stand-in (Group OSCORE / EDHOC are out of scope)"""
class fe25519: pass
