"""Minimal pure-Python CBOR (RFC 8949) stand-in for the cbor2 package: ints, bytes, str, lists,
dicts, bool, None. Definite lengths only on output; canonical shortest-form integers."""
import struct
class CBORDecodeError(Exception): pass
class CBORDecodeEOF(CBORDecodeError): pass
class CBOREncodeError(Exception): pass
class CBORTag:
    def __init__(self, tag, value): self.tag = tag; self.value = value
    def __eq__(self, o): return isinstance(o, CBORTag) and (self.tag, self.value) == (o.tag, o.value)
def _head(major, n):
    if n < 24: return bytes([major << 5 | n])
    if n < 2**8: return bytes([major << 5 | 24, n])
    if n < 2**16: return bytes([major << 5 | 25]) + struct.pack("!H", n)
    if n < 2**32: return bytes([major << 5 | 26]) + struct.pack("!I", n)
    if n < 2**64: return bytes([major << 5 | 27]) + struct.pack("!Q", n)
    raise CBOREncodeError("integer too large")
def dumps(obj, **kw):
    if obj is None: return b"\xf6"
    if obj is True: return b"\xf5"
    if obj is False: return b"\xf4"
    if isinstance(obj, int): return _head(0, obj) if obj >= 0 else _head(1, -1 - obj)
    if isinstance(obj, (bytes, bytearray)): return _head(2, len(obj)) + bytes(obj)
    if isinstance(obj, str): b = obj.encode("utf8"); return _head(3, len(b)) + b
    if isinstance(obj, (list, tuple)): return _head(4, len(obj)) + b"".join(dumps(x) for x in obj)
    if isinstance(obj, dict): return _head(5, len(obj)) + b"".join(dumps(k) + dumps(v) for k, v in obj.items())
    if isinstance(obj, CBORTag): return _head(6, obj.tag) + dumps(obj.value)
    raise CBOREncodeError("cannot serialize %r" % type(obj))
def _dec(b, i):
    if i >= len(b): raise CBORDecodeEOF("premature end")
    ib = b[i]; major, ai = ib >> 5, ib & 31; i += 1
    if ai < 24: n = ai
    elif ai in (24, 25, 26, 27):
        k = 1 << (ai - 24)
        if i + k > len(b): raise CBORDecodeEOF("premature end")
        n = int.from_bytes(b[i:i + k], "big"); i += k
    elif major == 7 or ai == 31: n = None
    else: raise CBORDecodeError("reserved additional information")
    if major == 0: return n, i
    if major == 1: return -1 - n, i
    if major in (2, 3):
        if n is None: raise CBORDecodeError("indefinite strings unsupported")
        if i + n > len(b): raise CBORDecodeEOF("premature end")
        raw = bytes(b[i:i + n]); i += n
        if major == 2: return raw, i
        try: return raw.decode("utf8"), i
        except UnicodeDecodeError as e: raise CBORDecodeError(str(e))
    if major == 4:
        if n is None: raise CBORDecodeError("indefinite arrays unsupported")
        out = []
        for _ in range(n): x, i = _dec(b, i); out.append(x)
        return out, i
    if major == 5:
        if n is None: raise CBORDecodeError("indefinite maps unsupported")
        out = {}
        for _ in range(n):
            k, i = _dec(b, i); v, i = _dec(b, i)
            try: out[k] = v
            except TypeError: out[tuple(k) if isinstance(k, list) else repr(k)] = v
        return out, i
    if major == 6:
        v, i = _dec(b, i); return CBORTag(n, v), i
    if ai == 20: return False, i
    if ai == 21: return True, i
    if ai == 22: return None, i
    raise CBORDecodeError("unsupported simple value / float")
def loads(b, **kw):
    v, i = _dec(bytes(b), 0)
    if i != len(b): raise CBORDecodeError("extra data after CBOR item")
    return v
