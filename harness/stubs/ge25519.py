"""empty stand-in (Group OSCORE / EDHOC are out of scope)"""
class ge25519: pass
class ge25519_p3: pass
