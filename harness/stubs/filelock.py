"""Stand-in for the filelock package (single process: the lock file is created, never contended)."""
import os
class Timeout(TimeoutError): pass
class FileLock:
    def __init__(self, lock_file, timeout=-1): self.lock_file = str(lock_file); self.timeout = timeout; self.is_locked = False
    def acquire(self, timeout=None, **kw):
        if os.path.exists(self.lock_file + ".held"): raise Timeout(self.lock_file)
        open(self.lock_file, "a").close(); self.is_locked = True; return self
    def release(self, force=False): self.is_locked = False
    def __enter__(self): return self.acquire()
    def __exit__(self, *a): self.release()
