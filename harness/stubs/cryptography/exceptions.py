class InvalidTag(Exception): pass
class InvalidSignature(Exception): pass
class UnsupportedAlgorithm(Exception): pass
class InvalidKey(Exception): pass
