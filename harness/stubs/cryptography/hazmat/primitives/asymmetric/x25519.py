class X25519PrivateKey:
    @classmethod
    def generate(cls): raise NotImplementedError("stub")
    @classmethod
    def from_private_bytes(cls, b): raise NotImplementedError("stub")
class X25519PublicKey:
    @classmethod
    def from_public_bytes(cls, b): raise NotImplementedError("stub")
