class SECP256R1: name = "secp256r1"
class ECDSA:
    def __init__(self, algorithm): self.algorithm = algorithm
class ECDH: pass
class EllipticCurvePublicKey:
    @classmethod
    def from_encoded_point(cls, curve, data): raise NotImplementedError("stub")
class EllipticCurvePublicNumbers:
    def __init__(self, x, y, curve): self.x, self.y, self.curve = x, y, curve
    def public_key(self): raise NotImplementedError("stub")
def generate_private_key(curve, backend=None): raise NotImplementedError("stub")
def derive_private_key(v, curve, backend=None): raise NotImplementedError("stub")
