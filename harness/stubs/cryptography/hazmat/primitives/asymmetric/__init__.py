from . import ed25519, x25519, ec, utils  # noqa
