def decode_dss_signature(sig): raise NotImplementedError("stub")
def encode_dss_signature(r, s): raise NotImplementedError("stub")
