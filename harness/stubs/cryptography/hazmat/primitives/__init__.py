from . import hashes, serialization, ciphers, asymmetric  # noqa
