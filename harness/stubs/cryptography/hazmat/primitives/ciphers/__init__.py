from . import aead  # noqa
class Cipher:
    def __init__(self, *a, **k): raise NotImplementedError("stub: only AEAD is provided")
class algorithms:
    class AES:
        def __init__(self, key): self.key = key
class modes:
    class ECB: pass
