"""Pure-Python AES-CCM (RFC 3610 / NIST SP 800-38C). AESGCM / ChaCha20Poly1305 are not provided."""
from cryptography.exceptions import InvalidTag, UnsupportedAlgorithm

_SBOX = []
def _init():
    p = q = 1
    sbox = [0] * 256
    while True:
        p = p ^ ((p << 1) & 0xFF) ^ (0x1B if p & 0x80 else 0)
        q ^= q << 1; q ^= q << 2; q ^= q << 4; q &= 0xFF
        if q & 0x80: q ^= 0x09
        x = q ^ ((q << 1 | q >> 7) & 0xFF) ^ ((q << 2 | q >> 6) & 0xFF) ^ ((q << 3 | q >> 5) & 0xFF) ^ ((q << 4 | q >> 4) & 0xFF)
        sbox[p] = x ^ 0x63
        if p == 1: break
    sbox[0] = 0x63
    return sbox
_SBOX = _init()
def _xt(a): return ((a << 1) ^ 0x1B) & 0xFF if a & 0x80 else a << 1

class _AES:
    def __init__(self, key):
        if len(key) not in (16, 24, 32): raise ValueError("Invalid key size")
        nk = len(key) // 4; self.nr = nk + 6
        w = [list(key[4 * i:4 * i + 4]) for i in range(nk)]
        rcon = 1
        for i in range(nk, 4 * (self.nr + 1)):
            t = list(w[i - 1])
            if i % nk == 0:
                t = t[1:] + t[:1]; t = [_SBOX[b] for b in t]; t[0] ^= rcon; rcon = _xt(rcon)
            elif nk > 6 and i % nk == 4:
                t = [_SBOX[b] for b in t]
            w.append([a ^ b for a, b in zip(w[i - nk], t)])
        self.rk = [sum(w[4 * r:4 * r + 4], []) for r in range(self.nr + 1)]
    def encrypt(self, block):
        s = [b ^ k for b, k in zip(block, self.rk[0])]
        for r in range(1, self.nr + 1):
            s = [_SBOX[b] for b in s]
            s = [s[(i + 4 * (i % 4)) % 16] for i in range(16)]  # ShiftRows (column-major state)
            if r != self.nr:
                o = []
                for c in range(4):
                    a = s[4 * c:4 * c + 4]; t = a[0] ^ a[1] ^ a[2] ^ a[3]
                    o += [a[i] ^ t ^ _xt(a[i] ^ a[(i + 1) % 4]) for i in range(4)]
                s = o
            s = [b ^ k for b, k in zip(s, self.rk[r])]
        return bytes(s)

class AESCCM:
    def __init__(self, key, tag_length=16):
        if tag_length not in (4, 6, 8, 10, 12, 14, 16): raise ValueError("Invalid tag_length")
        self._aes = _AES(bytes(key)); self._t = tag_length
    def _mac(self, nonce, data, aad):
        L = 15 - len(nonce); t = self._t
        b0 = bytes([(64 if aad else 0) | ((t - 2) // 2) << 3 | (L - 1)]) + nonce + len(data).to_bytes(L, "big")
        blocks = b0
        if aad:
            la = len(aad)
            hdr = la.to_bytes(2, "big") if la < 0xFF00 else b"\xff\xfe" + la.to_bytes(4, "big")
            a = hdr + aad; a += b"\0" * (-len(a) % 16); blocks += a
        blocks += data + b"\0" * (-len(data) % 16)
        x = b"\0" * 16
        for i in range(0, len(blocks), 16):
            x = self._aes.encrypt(bytes(p ^ q for p, q in zip(x, blocks[i:i + 16])))
        return x[:t]
    def _ctr(self, nonce, i):
        L = 15 - len(nonce)
        return self._aes.encrypt(bytes([L - 1]) + nonce + i.to_bytes(L, "big"))
    def _crypt(self, nonce, data):
        out = bytearray()
        for i in range(0, len(data), 16):
            ks = self._ctr(nonce, i // 16 + 1); out += bytes(a ^ b for a, b in zip(data[i:i + 16], ks))
        return bytes(out)
    def encrypt(self, nonce, data, associated_data):
        if not 7 <= len(nonce) <= 13: raise ValueError("Nonce must be between 7 and 13 bytes")
        aad = associated_data or b""
        tag = bytes(a ^ b for a, b in zip(self._mac(nonce, data, aad), self._ctr(nonce, 0)))
        return self._crypt(nonce, data) + tag
    def decrypt(self, nonce, data, associated_data):
        if not 7 <= len(nonce) <= 13: raise ValueError("Nonce must be between 7 and 13 bytes")
        if len(data) < self._t: raise InvalidTag()
        aad = associated_data or b""
        ct, tag = data[:-self._t], data[-self._t:]
        pt = self._crypt(nonce, ct)
        exp = bytes(a ^ b for a, b in zip(self._mac(nonce, pt, aad), self._ctr(nonce, 0)))
        if exp != tag: raise InvalidTag()
        return pt
class AESGCM:
    def __init__(self, key): raise UnsupportedAlgorithm("stub: AESGCM not provided")
class ChaCha20Poly1305:
    def __init__(self, key): raise UnsupportedAlgorithm("stub: ChaCha20Poly1305 not provided")
