import hashlib
class HashAlgorithm: pass
class SHA256(HashAlgorithm): name = "sha256"; digest_size = 32; block_size = 64
class SHA384(HashAlgorithm): name = "sha384"; digest_size = 48; block_size = 128
class SHA512(HashAlgorithm): name = "sha512"; digest_size = 64; block_size = 128
class SHA1(HashAlgorithm): name = "sha1"; digest_size = 20; block_size = 64
class Hash:
    def __init__(self, algorithm, backend=None): self._h = hashlib.new(algorithm.name); self.algorithm = algorithm
    def update(self, data): self._h.update(data)
    def finalize(self): return self._h.digest()
    def copy(self): c = Hash.__new__(Hash); c._h = self._h.copy(); c.algorithm = self.algorithm; return c
