class Encoding: Raw = "Raw"; DER = "DER"; PEM = "PEM"; X962 = "X962"
class PublicFormat: Raw = "Raw"; SubjectPublicKeyInfo = "SPKI"; UncompressedPoint = "UP"; CompressedPoint = "CP"
class PrivateFormat: Raw = "Raw"; PKCS8 = "PKCS8"
class NoEncryption: pass
def load_der_private_key(*a, **k): raise NotImplementedError("stub")
def load_der_public_key(*a, **k): raise NotImplementedError("stub")
