import hmac, hashlib
class HKDF:
    """RFC 5869 extract-and-expand via hashlib/hmac."""
    def __init__(self, algorithm, length, salt, info, backend=None):
        self._name = algorithm.name; self._length = length; self._salt = salt; self._info = info or b""
    def derive(self, key_material):
        hlen = hashlib.new(self._name).digest_size
        salt = self._salt if self._salt else b"\0" * hlen
        prk = hmac.new(salt, key_material, self._name).digest()
        okm, t, i = b"", b"", 1
        while len(okm) < self._length:
            t = hmac.new(prk, t + self._info + bytes([i]), self._name).digest(); okm += t; i += 1
        return okm[:self._length]
class HKDFExpand:
    def __init__(self, algorithm, length, info, backend=None):
        self._name = algorithm.name; self._length = length; self._info = info or b""
    def derive(self, prk):
        okm, t, i = b"", b"", 1
        while len(okm) < self._length:
            t = hmac.new(prk, t + self._info + bytes([i]), self._name).digest(); okm += t; i += 1
        return okm[:self._length]
