def default_backend(): return None
