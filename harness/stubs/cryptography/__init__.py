"""Stand-in for the `cryptography` package reduced to what plain OSCORE (AES-CCM, HKDF) needs."""
__version__ = "0-stub"
