"""empty stand-in (Group OSCORE / EDHOC are out of scope)"""
