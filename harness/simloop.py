"""Virtual-time asyncio event loop (DESIGN.md 4.1): integer-microsecond clock, FIFO ready queue,
timers ordered by (due, creation sequence). Drives unmodified aiocoap objects deterministically."""
import asyncio, heapq, itertools
from asyncio import events
from fractions import Fraction

class VLoop(asyncio.AbstractEventLoop):
    def __init__(self):
        self._now = 0            # microseconds
        self._ready = []
        self._timers = []
        self._seq = itertools.count()
        self._debug = False
        self.exceptions = []     # everything that reached call_exception_handler
        self._closed = False
        self._task_factory = None
    # --- basics
    def time(self): return self._now / 1e6
    def now_us(self): return self._now
    def get_debug(self): return self._debug
    def set_debug(self, d): self._debug = d
    def is_running(self): return True
    def is_closed(self): return self._closed
    def close(self): self._closed = True
    def create_future(self): return asyncio.Future(loop=self)
    def create_task(self, coro, *, name=None, context=None, **kw):
        return asyncio.Task(coro, loop=self, name=name, context=context)
    def get_task_factory(self): return None
    def call_soon(self, cb, *args, context=None):
        h = asyncio.Handle(cb, args, self, context); self._ready.append(h); return h
    call_soon_threadsafe = call_soon
    def call_later(self, delay, cb, *args, context=None):
        us = Fraction(delay).limit_denominator(10**6) * 10**6
        if us.denominator != 1: raise AssertionError("delay %r is not a whole number of microseconds" % (delay,))
        return self.call_at_us(self._now + max(0, int(us)), cb, args, context)
    def call_at(self, when, cb, *args, context=None):
        return self.call_later(when - self.time(), cb, *args, context=context)
    def call_at_us(self, due, cb, args, context):
        h = asyncio.TimerHandle(due / 1e6, cb, args, self, context)
        h._scheduled = True
        heapq.heappush(self._timers, (due, next(self._seq), h)); return h
    def _timer_handle_cancelled(self, h): pass
    def call_exception_handler(self, ctx): self.exceptions.append(ctx)
    def default_exception_handler(self, ctx): self.exceptions.append(ctx)
    def set_exception_handler(self, h): pass
    async def shutdown_asyncgens(self): pass
    async def shutdown_default_executor(self, timeout=None): pass
    def run_in_executor(self, executor, func, *args):
        f = self.create_future()
        try: f.set_result(func(*args))
        except Exception as e: f.set_exception(e)
        return f
    # --- driving
    def enter(self):
        """run `with loop.enter():` around direct calls into aiocoap that need a running loop"""
        loop = self
        class _C:
            def __enter__(s): s.prev = events._get_running_loop(); events._set_running_loop(loop)
            def __exit__(s, *a): events._set_running_loop(s.prev)
        return _C()
    def call(self, f, *a, **k):
        with self.enter(): return f(*a, **k)
    def drain(self, limit=1000000):
        """run until the ready queue is empty, without advancing time"""
        with self.enter():
            n = 0
            while self._ready:
                h = self._ready.pop(0)
                if not h._cancelled: h._run()
                n += 1
                if n > limit: raise RuntimeError("ready queue does not drain")
    def pending_timers(self):
        return sorted((d, s) for d, s, h in self._timers if not h._cancelled)
    def next_due(self):
        while self._timers and self._timers[0][2]._cancelled: heapq.heappop(self._timers)
        return self._timers[0][0] if self._timers else None
    def fire_next(self):
        """pop the pending timer with the least (due, seq), set the clock to its due time, run it and drain"""
        while self._timers:
            due, s, h = heapq.heappop(self._timers)
            if h._cancelled: continue
            self._now = max(self._now, due); self._ready.append(h); self.drain(); return due
        return None
    def advance(self, us):
        """advance the clock by `us`, firing every timer that becomes due, in order"""
        target = self._now + us
        while True:
            d = self.next_due()
            if d is None or d > target: break
            self.fire_next()
        self._now = target; self.drain()
    def advance_to(self, t_us):
        if t_us > self._now: self.advance(t_us - self._now)
    def run_until_complete(self, fut, limit=10**6):
        with self.enter(): fut = asyncio.ensure_future(fut, loop=self)
        self.drain(); n = 0
        while not fut.done():
            if self.fire_next() is None: raise RuntimeError("deadlock: future pending and no timers")
            n += 1
            if n > limit: raise RuntimeError("too many timers")
        return fut.result()
    def run_quiescent(self, coro):
        """start a coroutine as a task, drain the ready queue, return the task"""
        with self.enter(): t = asyncio.ensure_future(coro, loop=self)
        self.drain(); return t
