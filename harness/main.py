import sys, os, importlib
sys.path.insert(0, os.path.dirname(os.path.abspath(__file__)))
import fw

def main(argv):
    if len(argv) < 2:
        print("usage: check CXX quick|thorough | check CXX --replay <path>"); return 2
    pid = argv[0]
    mod = importlib.import_module("props." + pid.lower())
    prop = mod.PROPERTY
    if argv[1] == "--replay":
        return fw.run_replay(prop, argv[2])
    tier = argv[1]
    seed = int(os.environ.get("VERIF_SEED", "1"))
    return fw.run_check(prop, tier, seed)

if __name__ == "__main__":
    sys.exit(main(sys.argv[1:]))
