"""Verification framework shared by all property plugins (see DESIGN.md sections 4, 5).

A plugin (harness/props/cXX.py) defines a subclass of Property; `run_check` then
  1. regenerates the translated kernels (tie T) from the current /repo source,
  2. builds the Coq cone of coq/Props/CXX.v (full .vo build) and collects Print Assumptions,
  3. runs corpus + generated cases through the implementation and through the model
     (vm_compute inside coqc), compares (tie C) and evaluates the property oracle,
  4. writes evidence/CXX.json and prints VIOLATION / KNOWN-FINDING lines.
"""
import os, sys, json, time, random, subprocess, hashlib, re, fcntl, glob, traceback

VERIF = os.path.dirname(os.path.dirname(os.path.abspath(__file__)))
REPO = os.environ.get("AIOCOAP_REPO", "/repo")
SHARED_COQ = os.path.join(VERIF, "coq")
COQ = SHARED_COQ
BUILD = os.path.join(VERIF, "build")
COQC_FLAGS = ["-Q", COQ, "Verif", "-w", "-notation-overridden,-deprecated-hint-without-locality,-deprecated-instance-without-locality"]

def use_private_coq_dir():
    """Work on a private copy of coq/ (sources + compiled files): used by thorough runs (which rebuild the cone from scratch)
    and by runs against a repository other than /repo (whose regenerated Gen files must not leak into the shared tree)."""
    global COQ, COQC_FLAGS
    import shutil, atexit
    priv = os.path.join(BUILD, "coq-private-%d" % os.getpid())
    with Lock():
        run(["rsync", "-a", "--delete", SHARED_COQ + "/", priv + "/"], 600)
    COQ = priv
    COQC_FLAGS = ["-Q", COQ, "Verif"] + COQC_FLAGS[3:]
    atexit.register(lambda: shutil.rmtree(priv, ignore_errors=True))
NPROC = int(os.environ.get("VERIF_JOBS", "16"))


# ----------------------------------------------------------------------------- Coq term parser
class Ctor:
    """A constructor application printed by Coq, e.g. `Some 3`, `Raise IndexError`."""
    __slots__ = ("name", "args")
    def __init__(self, name, args=()):
        self.name = name; self.args = tuple(args)
    def __eq__(self, o): return isinstance(o, Ctor) and (self.name, self.args) == (o.name, o.args)
    def __hash__(self): return hash((self.name, self.args))
    def __repr__(self): return self.name if not self.args else "(%s %s)" % (self.name, " ".join(map(repr, self.args)))

_TOK = re.compile(r'\s*(?:(-?\d+)(?:%\w+)?|("(?:[^"]|"")*")(?:%\w+)?|(\{\||\|\}|:=|[\[\]();,])|([A-Za-z_][A-Za-z0-9_\.\']*))')

def _tokens(s):
    pos, out = 0, []
    s = s.rstrip()
    while pos < len(s):
        m = _TOK.match(s, pos)
        if not m:
            if s[pos:].strip() == "": break
            raise ValueError("cannot tokenize Coq output at %r" % s[pos:pos + 40])
        pos = m.end()
        if m.group(1) is not None: out.append(("int", int(m.group(1))))
        elif m.group(2) is not None: out.append(("str", m.group(2)[1:-1].replace('""', '"')))
        elif m.group(3) is not None: out.append(("p", m.group(3)))
        else: out.append(("id", m.group(4)))
    return out

def parse_coq_term(s):
    toks = _tokens(s); pos = [0]
    def peek(): return toks[pos[0]] if pos[0] < len(toks) else ("eof", None)
    def take(): t = peek(); pos[0] += 1; return t
    def atom():
        k, v = take()
        if k == "int": return v
        if k == "str": return v
        if k == "id":
            if v == "true": return True
            if v == "false": return False
            return Ctor(v.rsplit(".", 1)[-1])
        if (k, v) == ("p", "("):
            if peek() == ("p", ")"): take(); return ()
            items = [term()]
            while peek() == ("p", ","): take(); items.append(term())
            assert take() == ("p", ")"), "expected )"
            if len(items) == 1: return items[0]
            # Coq prints nested pairs flat: (a, b, c) is ((a, b), c); keep them flat as a tuple
            return tuple(items)
        if (k, v) == ("p", "["):
            items = []
            if peek() != ("p", "]"):
                items.append(term())
                while peek() == ("p", ";"): take(); items.append(term())
            assert take() == ("p", "]"), "expected ]"
            return items
        if (k, v) == ("p", "{|"):
            d = {}
            while peek() != ("p", "|}"):
                _, name = take(); assert take() == ("p", ":=")
                d[name] = term()
                if peek() == ("p", ";"): take()
            take(); return d
        raise ValueError("unexpected token %r" % ((k, v),))
    def starts_atom():
        k, v = peek()
        return k in ("int", "str", "id") or (k == "p" and v in ("(", "[", "{|"))
    def term():
        a = atom()
        if isinstance(a, Ctor) and not a.args:
            args = []
            while starts_atom(): args.append(atom())
            if args: return Ctor(a.name, args)
        return a
    t = term()
    if pos[0] != len(toks): raise ValueError("trailing tokens in Coq output: %r" % (toks[pos[0]:pos[0] + 5],))
    return t

def plain(t):
    """Coq parse tree -> JSON-able: Ctor -> {"c": name, "a": [...]} (or bare string when nullary)."""
    if isinstance(t, Ctor):
        return t.name if not t.args else {"c": t.name, "a": [plain(x) for x in t.args]}
    if isinstance(t, (list, tuple)): return [plain(x) for x in t]
    if isinstance(t, dict): return {k: plain(v) for k, v in t.items()}
    return t


# ----------------------------------------------------------------------------- Gallina literals
def gz(n): return "(%d)" % n
def gbool(b): return "true" if b else "false"
def gbytes(b): return "[" + "; ".join(str(x) for x in b) + "]"
def glist(items): return "[" + "; ".join(items) + "]"
def gopt(x, f=lambda y: y): return "None" if x is None else "(Some %s)" % f(x)
def gpair(*xs): return "(" + ", ".join(xs) + ")"
def gnat(n): return "(%d)%%nat" % n
def gstr(s): return '"' + s.replace('"', '""') + '"%string'


# ----------------------------------------------------------------------------- running coqc
def run(cmd, timeout, cwd=None, env=None):
    try:
        p = subprocess.run(cmd, cwd=cwd, env=env, stdout=subprocess.PIPE, stderr=subprocess.STDOUT, timeout=timeout, text=True)
        return p.returncode, p.stdout
    except subprocess.TimeoutExpired as e:
        return 124, (e.stdout or "") + "\nTIMEOUT after %ss: %s" % (timeout, " ".join(cmd))

def coq_eval(imports, terms, workdir, tag, timeout=300, shard=250):
    """Evaluate Gallina terms with vm_compute; returns a list of parse trees (or ('error', text))."""
    os.makedirs(workdir, exist_ok=True)
    shard = max(20, min(shard, -(-len(terms) // NPROC)))     # spread over the cores, at most `shard` cases per file
    shards = [terms[i:i + shard] for i in range(0, len(terms), shard)]
    files = []
    for si, sh in enumerate(shards):
        path = os.path.join(workdir, "cases_%s_%d.v" % (tag, si))
        with open(path, "w") as f:
            f.write("".join("Require Import %s.\n" % i for i in imports))
            f.write("From Coq Require Import ZArith List String.\nImport ListNotations.\nOpen Scope Z_scope.\n")
            f.write("Set Printing Width 1000000.\nSet Printing Depth 1000000.\n")
            for t in sh:
                f.write("Eval vm_compute in (%s).\n" % t)
        files.append(path)
    procs = []
    results = [None] * len(shards)
    def launch(i):
        return subprocess.Popen(["bash", "-c", "ulimit -s unlimited 2>/dev/null; exec timeout %d coqc %s %s" % (timeout, " ".join(COQC_FLAGS), files[i])],
                                stdout=subprocess.PIPE, stderr=subprocess.STDOUT, text=True, cwd=workdir)
    pending = list(range(len(shards))); running = {}
    while pending or running:
        while pending and len(running) < NPROC:
            i = pending.pop(0); running[i] = launch(i)
        for i, p in list(running.items()):
            try:
                out, _ = p.communicate(timeout=0.05)
            except subprocess.TimeoutExpired:
                continue
            results[i] = (p.returncode, out); del running[i]
    out_terms = []
    for i, sh in enumerate(shards):
        rc, out = results[i]
        if rc != 0:
            out_terms.extend([("error", out[-2000:])] * len(sh)); continue
        chunks = re.split(r'^\s+= ', out, flags=re.M)[1:]
        if len(chunks) != len(sh):
            out_terms.extend([("error", "expected %d results, got %d: %s" % (len(sh), len(chunks), out[-500:]))] * len(sh)); continue
        for c in chunks:
            body = re.split(r'^\s+: ', c, flags=re.M)[0]
            try:
                out_terms.append(parse_coq_term(body))
            except Exception as e:
                out_terms.append(("error", "parse: %s in %r" % (e, body[:200])))
    for f in files:
        for ext in ("", "o", "ok", "os"):
            try: os.remove(f + ext)
            except OSError: pass
        for g in (f[:-2] + ".glob", os.path.join(os.path.dirname(f), "." + os.path.basename(f)[:-2] + ".aux")):
            try: os.remove(g)
            except OSError: pass
    return out_terms


# ----------------------------------------------------------------------------- Coq build
class BuildResult:
    def __init__(self): self.model_ok = False; self.ok = True; self.log = ""; self.failed = None; self.cone = []; self.obligations = 0; self.assumptions = []; self.axioms = []; self.theorems = []; self.gen_changed = []; self.coqchk = None

def coq_project_files():
    fs = []
    for l in open(os.path.join(COQ, "_CoqProject")):
        l = l.strip()
        if l.endswith(".v") and not l.startswith("-"): fs.append(l)
    return fs

def cone_of(props_file):
    """Transitive Verif.* dependencies of a .v file (paths relative to coq/), in build order."""
    seen, order = set(), []
    def visit(f):
        if f in seen: return
        seen.add(f)
        src = open(os.path.join(COQ, f)).read()
        src = re.sub(r'\(\*.*?\*\)', '', src, flags=re.S)
        for m in re.finditer(r'(?:From\s+Verif\s+)?Require\s+(?:Import\s+|Export\s+)?([^.]*(?:\.[A-Za-z_][^.\s]*)*)\s*\.\s', src):
            pass
        deps = []
        for stmt in re.finditer(r'(From\s+(\S+)\s+)?Require\s+(Import\s+|Export\s+)?(.*?)\.\s', src, flags=re.S):
            frm = stmt.group(2); names = stmt.group(4).split()
            for n in names:
                full = n if frm is None else (n if n.startswith(frm + ".") else frm + "." + n)
                if full.startswith("Verif."):
                    rel = full[len("Verif."):].replace(".", "/") + ".v"
                    if os.path.exists(os.path.join(COQ, rel)): deps.append(rel)
        for d in deps: visit(d)
        order.append(f)
    visit(props_file)
    return order

_QED = re.compile(r'^\s*(?:Local\s+|Global\s+|#\[[^\]]*\]\s*)*(Lemma|Theorem|Corollary|Example|Fact|Proposition|Remark)\s+([A-Za-z_][A-Za-z0-9_\']*)', re.M)

def count_obligations(files):
    n, names = 0, []
    for f in files:
        src = open(os.path.join(COQ, f)).read()
        src = re.sub(r'\(\*.*?\*\)', '', src, flags=re.S)
        for m in _QED.finditer(src):
            n += 1; names.append(f + ":" + m.group(2))
    return n, names

FORBIDDEN = re.compile(r'\b(Admitted|admit|Axiom|Axioms|Parameter|Parameters|Conjecture|Admit Obligations|Unset Guard Checking|bypass_check|Unset Positivity Checking|Unset Universe Checking|type-in-type|impredicative-set)\b')

def scan_forbidden(files):
    hits = []
    for f in files:
        src = open(os.path.join(COQ, f)).read()
        src_nc = re.sub(r'\(\*.*?\*\)', lambda m: " " * len(m.group(0)), src, flags=re.S)
        for m in FORBIDDEN.finditer(src_nc):
            hits.append("%s: %s" % (f, m.group(0)))
        # Variable/Hypothesis outside a section
        depth = 0
        for line in src_nc.splitlines():
            if re.match(r'\s*Section\s', line): depth += 1
            elif re.match(r'\s*End\s', line) and depth > 0: depth -= 1
            elif depth == 0 and re.match(r'\s*(Variable|Variables|Hypothesis|Hypotheses|Context)\b', line):
                hits.append("%s: %s outside section" % (f, line.strip()[:40]))
    return hits

class Lock:
    def __enter__(self):
        os.makedirs(BUILD, exist_ok=True)
        self.f = open(os.path.join(BUILD, ".lock"), "w"); fcntl.flock(self.f, fcntl.LOCK_EX); return self
    def __exit__(self, *a):
        fcntl.flock(self.f, fcntl.LOCK_UN); self.f.close()

def write_coqproject():
    """_CoqProject is generated from the directory listing (Lib Gen Model Proofs Props), never edited by hand"""
    files = []
    for d in ("Lib", "Gen", "Model", "Proofs", "Props"):
        files += sorted(os.path.relpath(f, COQ) for f in glob.glob(os.path.join(COQ, d, "*.v")))
    text = "-Q . Verif\n-arg -w -arg -notation-overridden,-deprecated-hint-without-locality,-deprecated-instance-without-locality\n" + "\n".join(files) + "\n"
    cp = os.path.join(COQ, "_CoqProject")
    if not os.path.exists(cp) or open(cp).read() != text:
        with open(cp, "w") as f: f.write(text)

def ensure_makefile():
    write_coqproject()
    mk = os.path.join(COQ, "Makefile"); cp = os.path.join(COQ, "_CoqProject")
    if not os.path.exists(mk) or os.path.getmtime(mk) < os.path.getmtime(cp):
        rc, out = run(["coq_makefile", "-f", "_CoqProject", "-o", "Makefile"], 60, cwd=COQ)
        if rc != 0: raise RuntimeError("coq_makefile failed: " + out)

def regenerate(gen_jobs):
    """Run the translator for the named jobs; returns (ok, message, changed files)."""
    if not gen_jobs: return True, "", []
    sys.path.insert(0, os.path.join(VERIF, "translate"))
    import py2v
    changed = []
    for job in gen_jobs:
        try:
            text = py2v.run_job(job, REPO)
        except Exception as e:
            return False, "translation of %s no longer possible: %s: %s" % (job, type(e).__name__, e), changed
        out = os.path.join(COQ, "Gen", job + ".v")
        old = open(out).read() if os.path.exists(out) else None
        if old != text:
            with open(out, "w") as f: f.write(text)
            changed.append("Gen/%s.v" % job)
    return True, "", changed

def build(prop, tier):
    br = BuildResult()
    if tier == "thorough" or os.path.abspath(REPO) != "/repo":
        use_private_coq_dir()
    with Lock():
        ok, msg, changed = regenerate(prop.gen_jobs)
        br.gen_changed = changed
        if not ok:
            br.ok = False; br.failed = msg; br.log = msg; return br
        ensure_makefile()
        cone = cone_of(prop.coq_props)
        br.cone = cone
        # every module the generated case files import must be part of the cone that is rebuilt and scanned (else a stale .vo could be evaluated)
        outside = [m for m in prop.model_imports if m.startswith("Verif.") and m[len("Verif."):].replace(".", "/") + ".v" not in cone]
        if outside:
            br.ok = False; br.failed = "model_imports outside the dependency cone of %s: %s" % (prop.coq_props, ", ".join(outside)); return br
        bad = scan_forbidden(cone)
        if bad:
            br.ok = False; br.failed = "forbidden construct in development: " + "; ".join(bad[:5]); return br
        deps = [f for f in cone if f != prop.coq_props]
        if tier == "thorough":
            for f in cone:
                if not f.startswith("Lib/"):
                    for ext in (".vo", ".vok", ".vos", ".glob"):
                        try: os.remove(os.path.join(COQ, f[:-2] + ext))
                        except OSError: pass
        if deps:
            rc, out = run(["timeout", "1500", "make", "-j%d" % NPROC] + [f[:-2] + ".vo" for f in deps], 1600, cwd=COQ)
            br.log += out[-6000:]
            if rc != 0:
                br.ok = False
                m = re.search(r'File "\./([^"]+)", line (\d+)', out)
                br.failed = "proof obligation no longer checks: %s" % (("%s line %s" % (m.group(1), m.group(2))) if m else "make failed")
                m2 = re.search(r'(Error:.*?)(?:\n\n|\Z)', out, flags=re.S)
                if m2: br.failed += " — " + " ".join(m2.group(1).split())[:300]
                # the proofs broke; the executable model may still build, so that the correspondence run can look for a failing input
                mods = [m[len("Verif."):].replace(".", "/") + ".vo" for m in prop.model_imports if m.startswith("Verif.")]
                if mods:
                    rc2, _ = run(["timeout", "900", "make", "-j%d" % NPROC] + mods, 1000, cwd=COQ)
                    br.model_ok = (rc2 == 0)
                return br
        br.model_ok = True
        rc, out = run(["timeout", "600", "coqc"] + COQC_FLAGS + [prop.coq_props], 700, cwd=COQ)
        br.log += out[-6000:]
        if rc != 0:
            br.ok = False
            m2 = re.search(r'(Error:.*?)(?:\n\n|\Z)', out, flags=re.S)
            br.failed = "property theorem file %s no longer checks%s" % (prop.coq_props, (" — " + " ".join(m2.group(1).split())[:300]) if m2 else "")
            return br
        # Print Assumptions output
        closed = len(re.findall(r'Closed under the global context', out))
        ax_blocks = re.findall(r'Axioms:\n((?:.+\n?)+?)(?=\n|\Z)', out)
        axioms = set()
        for b in ax_blocks:
            for m in re.finditer(r'^([A-Za-z_][\w\.\']*)\s*:', b, flags=re.M): axioms.add(m.group(1))
        br.assumptions = ["%d property theorems closed under the global context" % closed] + (["axioms used: " + ", ".join(sorted(axioms))] if axioms else [])
        br.axioms = sorted(axioms)
        br.obligations, names = count_obligations(cone)
        src = open(os.path.join(COQ, prop.coq_props)).read()
        br.theorems = [m.group(2) for m in _QED.finditer(re.sub(r'\(\*.*?\*\)', '', src, flags=re.S))]
        n_print = len(re.findall(r'^\s*Print Assumptions\b', re.sub(r'\(\*.*?\*\)', '', src, flags=re.S), flags=re.M))
        if closed + len(ax_blocks) < n_print:
            br.ok = False; br.failed = "Print Assumptions output incomplete for %s" % prop.coq_props
        if tier == "thorough" and os.environ.get("VERIF_COQCHK", "1") == "1":
            mod = "Verif." + prop.coq_props[:-2].replace("/", ".")
            rc, out = run(["timeout", "1500", "coqchk", "-silent", "-o", "-Q", COQ, "Verif", mod], 1600, cwd=COQ)
            br.coqchk = "coqchk exit %d: %s" % (rc, " ".join(out.split())[-600:])
            if rc != 0:
                br.ok = False; br.failed = "coqchk rejected %s" % mod
    return br


# ----------------------------------------------------------------------------- Property plugin base
class Property:
    id = None
    coq_props = None            # e.g. "Props/C12.v"
    gen_jobs = []               # translator job names (coq/Gen/<job>.v)
    model_imports = []          # e.g. ["Verif.Model.C12"]
    trusted_base = []
    assumptions = []
    rule = ""
    quick_budget = 400
    thorough_budget = 20000
    search_factor = 5           # extra oracle-only budget when an obligation / the correspondence breaks
    level_text = ""; level_note = ""; technique = "Coq proof over executable model + translator/correspondence tie"; design_ref = "DESIGN.md"

    def gen_cases(self, tier, rng, n):
        """yield (stream, input) — input must be JSON-able"""
        return []
    def impl(self, stream, inp):
        """run the real aiocoap code; return canonical JSON-able result"""
        raise NotImplementedError
    def model(self, stream, inp):
        """Gallina term (string) or None when the stream has no model counterpart"""
        return None
    def decode(self, stream, inp, parsed):
        """parsed Coq term -> canonical result comparable with impl()"""
        return plain(parsed)
    def oracle(self, stream, inp, res):
        """None if the property holds on this case of the implementation, else (signature, message)"""
        return None
    def nontrivial(self, stream, inp, res):
        """hashable key if the case is non-trivial, else None"""
        return json.dumps([stream, inp], sort_keys=True, default=str)
    def setup(self): pass
    def teardown(self): pass


def start_coverage(prop, tier):
    """Measure which lines of the property's anchored source files the implementation runs execute (thorough tier, or VERIF_COVERAGE=1):
    a number for how much of the anchored code the correspondence/oracle streams actually drive."""
    if not (tier == "thorough" or os.environ.get("VERIF_COVERAGE") == "1"): return None
    try:
        import coverage
        c = coverage.Coverage(data_file=None, include=[os.path.join(os.path.abspath(REPO), "aiocoap", "*")], branch=False)
        c.start(); return c
    except Exception:
        return None

PINNED = "1d5ce5c"   # the commit the anchors' line numbers in properties.jsonl refer to

def _functions(src):
    """qualified name -> (first line, last line) of every function / method in a Python source text"""
    import ast
    out = {}
    def walk(node, prefix):
        for n in getattr(node, "body", []):
            if isinstance(n, (ast.FunctionDef, ast.AsyncFunctionDef)):
                out[prefix + n.name] = (n.lineno, n.end_lineno); walk(n, prefix + n.name + ".")
            elif isinstance(n, ast.ClassDef):
                walk(n, prefix + n.name + ".")
    walk(ast.parse(src), "")
    return out

def anchored_functions(prop_id):
    """{file: sorted qualified names of the functions that contain the anchored line ranges (at the pinned commit)}"""
    anchors = {}
    for l in open(os.path.join(VERIF, "properties.jsonl")):
        d = json.loads(l)
        if d["id"] != prop_id: continue
        for m in d["anchors"].get("mechanism", []) + d["anchors"].get("state", []):
            w = m.get("where") or ""
            if ":" not in w: continue
            f, rngs = w.split(":", 1)
            for r in rngs.split(","):
                try: a, b = (r.split("-") + [r])[:2]; anchors.setdefault(f.strip(), []).append((int(a), int(b)))
                except ValueError: pass
    out = {}
    for f, rngs in anchors.items():
        rc, old = run(["git", "-C", "/repo", "show", "%s:%s" % (PINNED, f)], 30)
        if rc != 0: continue
        try: fns = _functions(old)
        except SyntaxError: continue
        names = sorted({q for q, (a, b) in fns.items() for (x, y) in rngs if a <= y and x <= b
                        and not any(q2 != q and q2.startswith(q + ".") and fns[q2][0] <= y and x <= fns[q2][1] for q2 in fns)})
        out[f] = names
    return out

def stop_coverage(c, prop):
    if c is None: return "not measured in this tier (set VERIF_COVERAGE=1 or run thorough)"
    c.stop()
    out = {}
    try:
        for f, names in anchored_functions(prop.id).items():
            path = os.path.join(os.path.abspath(REPO), f)
            if not os.path.exists(path): out[f] = "missing"; continue
            _, stmts, _, missing, _ = c.analysis2(path)
            cur = _functions(open(path).read())
            per = {}
            for q in names:
                if q not in cur: per[q] = "function no longer present"; continue
                a, b = cur[q]
                st = [x for x in stmts if a < x <= b]; ms = [x for x in missing if a < x <= b]
                per[q] = {"statements": len(st), "executed": len(st) - len(ms), "not_executed_lines": ms[:12]}
            tot = sum(v["statements"] for v in per.values() if isinstance(v, dict)); ex = sum(v["executed"] for v in per.values() if isinstance(v, dict))
            out[f] = {"anchored_functions": per, "statements": tot, "executed": ex, "percent": round(100.0 * ex / max(1, tot), 1)}
    except Exception as e:
        return "coverage failed: %r" % e
    return out

def load_known_findings():
    out = []
    for p in [os.path.join(VERIF, "known_findings.json")] + sorted(glob.glob(os.path.join(VERIF, "known_findings.d", "*.json"))):
        if os.path.exists(p): out += json.load(open(p)).get("findings", [])
    return out

def corpus_cases(pid):
    out = []
    for f in sorted(glob.glob(os.path.join(VERIF, "corpus", pid, "*.json"))):
        d = json.load(open(f))
        for c in (d if isinstance(d, list) else [d]):
            out.append((c["stream"], c["input"]))
    return out

def jdump(x): return json.dumps(x, sort_keys=True, default=str)

def write_replay(pid, payload):
    d = os.path.join(BUILD, "replay"); os.makedirs(d, exist_ok=True)
    h = hashlib.sha1(jdump(payload).encode()).hexdigest()[:12]
    p = os.path.join(d, "%s-%s.json" % (pid, h))
    with open(p, "w") as f: json.dump(payload, f, indent=1, default=str)
    return os.path.relpath(p, VERIF)

def safe_impl(prop, stream, inp):
    try:
        return prop.impl(stream, inp)
    except BaseException as e:
        if isinstance(e, (KeyboardInterrupt, SystemExit)): raise
        tb = traceback.extract_tb(e.__traceback__)
        where = "%s:%s" % (os.path.basename(tb[-1].filename), tb[-1].name) if tb else "?"
        return {"harness_exception": type(e).__name__, "where": where, "text": str(e)[:200]}

def run_check(prop, tier, seed):
    t0 = time.time()
    assert_repo()
    rng = random.Random(seed)
    findings = [f for f in load_known_findings() if f.get("property") == prop.id]
    open_sigs = {f["signature"]: f for f in findings if f.get("status") == "open"}
    br = build(prop, tier)
    prop.setup()
    budget = prop.quick_budget if tier == "quick" else prop.thorough_budget
    cases = corpus_cases(prop.id)
    n_corpus = len(cases)
    cases += list(prop.gen_cases(tier, rng, budget))
    workdir = os.path.join(BUILD, "%s-%d" % (prop.id, os.getpid()))
    cov = start_coverage(prop, tier)
    results = [safe_impl(prop, s, i) for s, i in cases]
    anchored_cov = stop_coverage(cov, prop)
    # model side
    idx, terms = [], []
    if br.ok or br.model_ok:
        for k, (s, i) in enumerate(cases):
            t = prop.model(s, i)
            if t is not None: idx.append(k); terms.append(t)
    model_res = {}
    model_err = None
    if terms:
        parsed = coq_eval(prop.model_imports, terms, workdir, prop.id)
        for k, p in zip(idx, parsed):
            if isinstance(p, tuple) and len(p) == 2 and p[0] == "error":
                model_err = p[1]; model_res[k] = {"model_error": p[1][:300]}
            else:
                try: model_res[k] = prop.decode(cases[k][0], cases[k][1], p)
                except Exception as e: model_res[k] = {"model_decode_error": repr(e)[:300]}
    disagreements, violations, known_hits = [], [], {}
    streams, nontrivial = {}, set()
    for k, ((s, i), r) in enumerate(zip(cases, results)):
        streams[s] = streams.get(s, 0) + 1
        key = prop.nontrivial(s, i, r)
        if key is not None: nontrivial.add(key)
        if k in model_res and jdump(model_res[k]) != jdump(r):
            disagreements.append(k)
        o = prop.oracle(s, i, r)
        if o is not None:
            sig, msg = o
            if sig in open_sigs: known_hits.setdefault(sig, (k, msg))
            else: violations.append((k, sig, msg))
    # violation search when something broke but no failing input yet
    searched = 0
    if (not br.ok or disagreements) and not violations:
        extra = list(prop.gen_cases("thorough", random.Random(seed + 1), budget * prop.search_factor))
        for (s, i) in extra:
            r = safe_impl(prop, s, i); searched += 1
            o = prop.oracle(s, i, r)
            if o is not None and o[0] not in open_sigs:
                cases.append((s, i)); results.append(r); violations.append((len(cases) - 1, o[0], o[1])); break
    prop.teardown()
    try:
        if os.path.isdir(workdir) and not os.listdir(workdir): os.rmdir(workdir)
    except OSError: pass
    # ---- report
    lines, exit_code = [], 0
    # one line per LISTED open finding (whether or not this run's cases reached it), so that the output does not depend on the seed
    for sig, f in open_sigs.items():
        lines.append("KNOWN-FINDING: property=%s %s [%s]" % (prop.id, f.get("what", sig), "reproduced in this run" if sig in known_hits else "not reached by this run's cases"))
    reported = set()
    for k, sig, msg in violations:
        if sig in reported: continue
        reported.add(sig)
        payload = {"property": prop.id, "kind": "oracle", "signature": sig, "message": msg, "stream": cases[k][0], "input": cases[k][1],
                   "implementation": results[k], "model": model_res.get(k), "broken_obligation": br.failed}
        lines.append("VIOLATION property=%s replay=%s" % (prop.id, write_replay(prop.id, payload)))
        exit_code = 1
        if len(reported) >= 5: break
    if not violations and (not br.ok or disagreements):
        if disagreements:
            k = disagreements[0]
            what = "correspondence stream '%s' no longer agrees (model vs implementation); %d disagreement(s)" % (cases[k][0], len(disagreements))
            payload = {"property": prop.id, "kind": "correspondence", "what": what, "stream": cases[k][0], "input": cases[k][1],
                       "implementation": results[k], "model": model_res.get(k), "broken_obligation": br.failed,
                       "note": "oracle found no property-violating input among %d cases + %d searched" % (len(cases), searched)}
        else:
            payload = {"property": prop.id, "kind": "proof", "what": br.failed, "log_tail": br.log[-3000:],
                       "note": "oracle found no property-violating input among %d cases + %d searched" % (len(cases), searched)}
        lines.append("VIOLATION property=%s replay=%s no-failing-input-found" % (prop.id, write_replay(prop.id, payload)))
        exit_code = 1
    wall = time.time() - t0
    samples = []
    seen_streams = set()
    for k, (s, i) in enumerate(cases):
        if s not in seen_streams and k >= n_corpus:
            seen_streams.add(s); samples.append({"stream": s, "input": i, "implementation": results[k], "model": model_res.get(k, "no model term for this stream")})
    samples = json.loads(jdump(samples))[:8]
    def clip(x, n=600):
        s = jdump(x); return x if len(s) <= n else s[:n] + "…"
    samples = [clip(x) for x in samples]
    ev = {
        "property_id": prop.id, "tier": tier, "seed": seed, "level": "proof",
        "coverage": {
            "obligations": br.obligations, "discharged": br.obligations if br.ok else 0,
            "checker_cmd": "make -C coq <cone of %s> (coqc 8.16.1, full .vo) && coqc %s (Print Assumptions)%s" % (prop.coq_props, prop.coq_props, "; coqchk -o" if tier == "thorough" else ""),
            "trusted_base": ["Coq 8.16.1 kernel, vm_compute (no native_compute)"] + br.assumptions + prop.trusted_base,
            "property_theorems": br.theorems, "cone": br.cone, "axioms": br.axioms, "coqchk": br.coqchk,
            "gen_regenerated_from_source": prop.gen_jobs, "gen_changed_this_run": br.gen_changed,
            "evaluations": len(cases), "corpus_cases": n_corpus, "model_evaluations": len(terms),
            "distinct_nontrivial": len(nontrivial), "rule": prop.rule, "streams": streams,
            "disagreements": len(disagreements), "oracle_violations": len(violations), "known_findings_reproduced": sorted(known_hits),
            "extra_search_evaluations": searched, "build_ok": br.ok, "build_failure": br.failed, "model_error": model_err,
            "samples": samples,
            "anchored_source_line_coverage": anchored_cov,
        },
        "assumptions": prop.assumptions, "wall_s": round(wall, 2), "violations": len(reported) if violations else (1 if exit_code else 0),
    }
    if not br.ok:
        # a broken build is reported through the exploration-style keys; the proof keys must not claim anything
        cov = ev["coverage"]
        cov["obligations_in_cone"] = cov.pop("obligations"); cov["obligations_discharged"] = cov.pop("discharged")
    # evidence/ only ever describes runs against /repo itself; runs against another tree (seeded / mutated scratch copies) write elsewhere
    evdir = os.path.join(VERIF, "evidence") if (os.path.abspath(REPO) == "/repo" and not os.environ.get("VERIF_NO_EVIDENCE")) else os.path.join(BUILD, "evidence-other-repo")
    os.makedirs(evdir, exist_ok=True)
    with open(os.path.join(evdir, prop.id + ".json"), "w") as f: json.dump(ev, f, indent=1, default=str)
    for l in lines: print(l)
    print("%s %s: %d obligations (%s), %d cases (%d through the model), %d disagreements, %d violations, %.1fs" % (
        prop.id, tier, br.obligations, "all discharged" if br.ok else "BUILD BROKEN: %s" % br.failed, len(cases), len(terms), len(disagreements), len(violations), wall))
    return exit_code

def run_replay(prop, path):
    assert_repo()
    d = json.load(open(path if os.path.isabs(path) else os.path.join(VERIF, path)))
    if isinstance(d, list):          # a corpus file: replay every case in it
        rc = 0
        for i, c in enumerate(d):
            tmp = os.path.join(BUILD, "replay", "_case_%d_%d.json" % (os.getpid(), i)); os.makedirs(os.path.dirname(tmp), exist_ok=True)
            json.dump(c, open(tmp, "w")); rc |= run_replay(prop, tmp); os.remove(tmp)
        return rc
    if "input" not in d:
        print("replay file names a broken obligation, no input: %s" % d.get("what")); return 1
    prop.setup()
    s, i = d["stream"], d["input"]
    r = safe_impl(prop, s, i)
    print("stream:", s); print("input:", jdump(i)[:2000]); print("implementation:", jdump(r)[:2000])
    t = prop.model(s, i)
    if t is not None:
        workdir = os.path.join(BUILD, "%s-replay-%d" % (prop.id, os.getpid()))
        p = coq_eval(prop.model_imports, [t], workdir, prop.id)[0]
        try: os.rmdir(workdir)
        except OSError: pass
        m = p if (isinstance(p, tuple) and p and p[0] == "error") else prop.decode(s, i, p)
        print("model:", jdump(m)[:2000]); print("agree:", jdump(m) == jdump(r))
    o = prop.oracle(s, i, r)
    prop.teardown()
    if o is None:
        print("oracle: property holds on this case"); return 0
    print("VIOLATION property=%s replay=%s" % (prop.id, path)); print("oracle:", o[0], "-", o[1]); return 1

def assert_repo():
    sys.path.insert(0, REPO)
    import aiocoap
    assert os.path.abspath(aiocoap.__file__).startswith(os.path.abspath(REPO) + os.sep), "aiocoap imported from %s, not %s" % (aiocoap.__file__, REPO)
